"""Builds and runs an auditok worker pipeline under the harness scheduler
(or free-running, for model validation) and collects what was observed.

pipeline case (JSON):
  {"audio": recording, "win": [kmin,kmax,ksil,drop,strict],
   "saver": null | {"cache": seconds},
   "observers": ["rec","rec","print","regsave","joiner"],
   "join_sil": [k, frac]   (silence between joined events, in samples)
   "tmpl": "det_{id}_{start:.3f}",  "ext": "wav"|"raw",
   "choices": [...], "stop": null | fraction in [0,1.2]}
"""

import contextlib
import io
import os
import sys
import threading
import time
import wave

from . import audio
from .common import HarnessError, Violation, import_auditok, tmpdir
from .sched import CQueue, Sched, SchedAbort

import_auditok()
import auditok  # noqa: E402
import auditok.workers as W  # noqa: E402
from auditok.io import AudioSource  # noqa: E402

_ctr = [0]


class SlowSource(AudioSource):
    """Harness audio source: every read is a yield point; remembers exactly
    which blocks it handed out and whether it was read after being closed."""

    def __init__(self, data, sr, sw, ch, sched=None, jitter=None, endless=False):
        super().__init__(sr, sw, ch)
        self.endless = endless
        self._d = data
        self._bps = sw * ch
        self._pos = 0
        self._open = False
        self.sched = sched
        self.jitter = jitter
        self.handed = []
        self.none_returns = 0
        self.closed_count = 0
        self.inner = None  # a real AudioSource standing behind this one

    def is_open(self):
        return self._open

    def open(self):
        if self.sched is not None:
            self.sched.yield_point("src-open")  # a stop may arrive while the source is being opened
        self._open = True
        if self.inner is not None:
            self.inner.open()

    def close(self):
        self._open = False
        self.closed_count += 1
        if self.inner is not None:
            self.inner.close()

    def read(self, size):
        if self.sched is not None:
            self.sched.yield_point("src-read")
        elif self.jitter:
            time.sleep(self.jitter[len(self.handed) % len(self.jitter)])
        if getattr(self, "abort", False):
            self.none_returns += 1
            return None  # the harness ends a run whose stop request failed
        if self.inner is not None:
            chunk = self.inner.read(size) or b""
        else:
            chunk = self._d[self._pos: self._pos + size * self._bps]
        if self.endless and len(chunk) < size * self._bps:
            # a live source: digital silence for ever once the recording is over
            chunk = chunk + bytes(size * self._bps - len(chunk))
        if not chunk:
            self.none_returns += 1
            return None
        self._pos += len(chunk)
        self.handed.append(chunk)
        return chunk


class ReadLogProxy:
    """Transparent proxy between TokenizerWorker and its reader: forwards
    everything, logs what read() returned to the tokenizer."""

    def __init__(self, target):
        object.__setattr__(self, "_target", target)
        object.__setattr__(self, "returned", [])

    def read(self):
        r = self._target.read()
        self.returned.append(r)
        return r

    def __getattr__(self, name):
        return getattr(self._target, name)


def make_rec_observer(sched, jitter=None):
    class RecObserver(W.Worker):
        def __init__(self):
            self.log = []
            self.busy_when_stop_queued = False
            super().__init__(timeout=0.01 if sched is None else 0.2)

        def _process_message(self, message):
            if sched is not None:
                sched.yield_point("obs-process")
            elif jitter:
                time.sleep(jitter[len(self.log) % len(jitter)])
            _id, region = message
            self.log.append((_id, bytes(region), region.meta.start, region.meta.end))

    return RecObserver()


class FakePlayer:
    """stands in for a PyAudio player: records what it is asked to play"""

    def __init__(self, sched):
        self.sched = sched
        self.played = []

    def play(self, data, progress_bar=False, **kwargs):
        if self.sched is not None:
            self.sched.yield_point("player-play")
        self.played.append(bytes(data))


def library_constants():
    """Module-level string / bytes constants of the library (markers, names, formats), as bytes: a
    dictionary for audio content - a block of audio that happens to equal one of them is still audio."""
    import auditok.core as C
    import auditok.io as IO
    import auditok.util as U

    out = set()
    for mod in (W, C, IO, U):
        for name, v in vars(mod).items():
            if isinstance(v, str):
                v = v.encode("latin-1", "ignore")
            if isinstance(v, bytes) and 2 <= len(v) <= 48 and not name.startswith("__"):
                out.add(v)
    return sorted(out)


def inject_constant(data, rec):
    """rec['inject'] = [window, k]: window `window` of the recording becomes the k-th library constant
    whose length is the size of a window in bytes (if there is one)."""
    if not rec.get("inject"):
        return data
    wbytes = rec["B"] * rec["sw"] * rec["ch"]
    fit = [c for c in library_constants() if len(c) == wbytes]
    w, k = rec["inject"]
    if not fit or (w + 1) * wbytes > len(data):
        return data
    c = fit[k % len(fit)]
    return data[: w * wbytes] + c + data[(w + 1) * wbytes:]


def make_logger(out, sched):
    """A logger for the tokenizer worker (what --debug gives it): every record it emits is kept and
    is a yield point, so other threads may run while the tokenizer is inside a log call."""
    import logging

    class _H(logging.Handler):
        def createLock(self):
            self.lock = None  # single producer; the harness scheduler must not meet a held lock

        def emit(self, record):
            out.log_lines.append(record.getMessage())
            if sched is not None:
                sched.yield_point("log")

    logger = logging.Logger(f"vf-pipeline-{_ctr[0]}", logging.DEBUG)
    logger.addHandler(_H())
    return logger


def reader_options(case, endless=False):
    """-> (hop in samples or None, max_read seconds or None, visible samples or None)"""
    rec = case["audio"]
    B, sr = rec["B"], rec["sr"]
    hop = B // 2 if case.get("overlap") and B % 2 == 0 and not case.get("saver") else None
    mr = vis = None
    if case.get("mr") is not None and not endless:
        from .props.c10 import resolve_max_read

        mr, vis = resolve_max_read({"mr": case["mr"], "sr": sr})
    return hop, mr, vis


def split_kwargs(case):
    rec, win = case["audio"], case["win"]
    w = rec["B"] / rec["sr"]  # the tokenizer worker is an AudioReader: window = block duration
    mind, maxd, sild = audio.split_durations(win, w)
    return dict(min_dur=mind, max_dur=maxd, max_silence=sild, drop_trailing_silence=win[3],
                strict_min_dur=win[4])


def expected_detections(data, case, thr):
    """split() of the same bytes with the same parameters (different code path:
    no threads).  -> [(id, bytes, start, end)]"""
    rec = case["audio"]
    aw = audio.window_arg(rec["B"], rec["sr"])
    hop, _mr, _vis = reader_options(case)  # (max_read: the caller passes the visible part of the data)
    extra = {} if hop is None else {"hop_dur": hop / rec["sr"]}
    reader = auditok.AudioReader(data, block_dur=aw, sampling_rate=rec["sr"], sample_width=rec["sw"],
                                 channels=rec["ch"], **extra)
    regs = auditok.split(reader, energy_threshold=thr, use_channel=rec.get("uc"), **split_kwargs(case))
    return [(i, bytes(r), r.start, r.end) for i, r in enumerate(regs, 1)]


def read_wav(path):
    with wave.open(path, "rb") as fp:
        return (fp.getframerate(), fp.getsampwidth(), fp.getnchannels()), fp.readframes(fp.getnframes())


class Run:
    """Everything observed in one pipeline run."""


def _make_source(case, data, d, sched, jitter, endless):
    """The audio source of a pipeline: the harness source itself, or a real lazily read wav / raw
    file behind it (every read still is a scheduling point and is logged)."""
    rec = case["audio"]
    sr, sw, ch = rec["sr"], rec["sw"], rec["ch"]
    kind = case.get("src_kind", "harness")
    if kind == "harness":
        return SlowSource(data, sr, sw, ch, sched, jitter, endless)
    path = os.path.join(d, "input." + ("wav" if kind == "wav_lazy" else "raw"))
    if kind == "wav_lazy":
        with wave.open(path, "wb") as fp:
            fp.setframerate(sr)
            fp.setsampwidth(sw)
            fp.setnchannels(ch)
            fp.writeframes(data)
        inner = auditok.io.WaveAudioSource(path)
    elif kind == "raw_lazy":
        with open(path, "wb") as fp:
            fp.write(data)
        inner = auditok.io.RawAudioSource(path, sr, sw, ch)
    else:
        raise HarnessError(kind)
    src = SlowSource(b"", sr, sw, ch, sched, jitter, endless)
    src.inner = inner
    src.input_path = path
    return src


def _stale_wav(path, sr, sw, ch):
    """a file left behind by an interrupted earlier run, under the name a saver would use for its
    temporary wav"""
    with wave.open(path, "wb") as fp:
        fp.setframerate(sr)
        fp.setsampwidth(sw)
        fp.setnchannels(ch)
        fp.writeframes(b"\x55" * (sw * ch * 5))


def _build(out, case, d, sched, jitter, endless):
    """Create source, reader, optional saver, observers and tokenizer of one pipeline in `out`."""
    rec = case["audio"]
    sr, sw, ch, B = rec["sr"], rec["sw"], rec["ch"], rec["B"]
    data, thr = audio.synth(rec)
    data = inject_constant(data, rec)
    aw = audio.window_arg(B, sr)
    out.dir = d
    out.data, out.thr = data, thr
    out.sched = sched
    src = _make_source(case, data, d, sched, jitter, endless)
    hop, mr, vis = reader_options(case, endless)
    rkw = {}
    if hop is not None:
        rkw["hop_dur"] = hop / sr  # overlapping analysis windows
    if mr is not None:
        rkw["max_read"] = mr
        out.data = data[: vis * sw * ch]  # what a run to the end can see
    if case.get("record"):
        rkw["record"] = True  # a recording reader handed to the worker
    reader = auditok.AudioReader(src, block_dur=aw, **rkw)
    out.src = src
    saver = None
    top = reader
    out.ignore_files = {getattr(src, "input_path", None)}
    if case.get("saver"):
        ext = case["saver"].get("ext", ".wav")
        # (names are unique per run: a saver object of an earlier run may be finalised late, and its
        # __del__ removes its temporary file by the - possibly relative - name it was given)
        stem = f"stream{_ctr[0]}"
        out.saver_path = os.path.join(d, stem + ext)
        out.saver_arg = (stem + ext) if case.get("relative") else out.saver_path
        out.saver_ext = ext
        out.ignore_files |= {out.saver_path, out.saver_path + ".wav", out.saver_path + "(1).wav"}
        if case.get("stale_tmp") and ext.lower() != ".wav":
            _stale_wav(out.saver_path + ".wav", sr, sw, ch)
        skw = {} if case["saver"]["cache"] is None else {"cache_size_sec": case["saver"]["cache"]}  # None: the default
        if case["saver"].get("fmt") and ext.lower() in ("", "." + case["saver"]["fmt"].lower()):
            # the export format given explicitly (any letter case), in agreement with the name or on a name without extension
            skw["export_format"] = case["saver"]["fmt"]
            if ext == "":
                out.saver_ext = "." + case["saver"]["fmt"].lower()
        saver = W.StreamSaverWorker(reader, out.saver_arg, **skw)
        top = saver
        out.wf_calls = []
        _orig_wf = saver._wfp.writeframes

        def _wf(frames, _o=_orig_wf):
            out.wf_calls.append((len(src.handed), len(frames)))
            return _o(frames)

        saver._wfp.writeframes = _wf
    out.saver = saver
    # the worker is handed the reader / the stream saver itself (what a program does); with a stream
    # saver, half of the cases put a transparent logging proxy in between to see what the tokenizer got
    proxy = ReadLogProxy(top) if (saver is not None and not case.get("direct")) else top
    out.proxy = proxy if isinstance(proxy, ReadLogProxy) else None
    observers = []
    out.recs, out.regsave, out.joiner, out.printer = [], None, None, None
    out.player, out.command = None, None
    for kind in case["observers"]:
        if kind == "rec":
            o = make_rec_observer(sched, jitter)
            out.recs.append(o)
        elif kind == "print":
            o = W.PrintWorker("{id} {start} {end} {duration}", "%S")
            out.printer = o
        elif kind == "regsave":
            out.tmpl = os.path.join(d, case.get("tmpl", "det_{id}") + "." + case.get("ext", "wav"))
            o = W.RegionSaverWorker(os.path.basename(out.tmpl) if case.get("relative") else out.tmpl)
            out.regsave = o
        elif kind == "player":
            out.player = FakePlayer(sched)
            o = W.PlayerWorker(out.player)
        elif kind == "command":
            # one temporary wav per detection (the worker never removes them): keep them in the run dir
            out.cmd_dir = os.path.join(d, "cmdtmp")
            os.makedirs(out.cmd_dir, exist_ok=True)
            out.cmd_log = os.path.join(d, "cmd.log")
            out.ignore_files |= {out.cmd_dir, out.cmd_log}
            o = W.CommandLineWorker("cat {file} >> " + out.cmd_log)
            out.command = o
        elif kind == "joiner":
            k, frac = case.get("join_sil", [0, 0])
            out.join_sil = (k + frac) / sr
            jext = case.get("joiner_ext", ".wav")
            jstem = f"joined{_ctr[0]}"
            out.joiner_path = os.path.join(d, jstem + jext)
            out.joiner_ext = jext
            out.ignore_files |= {out.joiner_path, out.joiner_path + ".wav", out.joiner_path + "(1).wav"}
            if case.get("stale_tmp") and jext.lower() != ".wav":
                _stale_wav(out.joiner_path + ".wav", sr, sw, ch)
            o = W.AudioEventsJoinerWorker(out.join_sil, (jstem + jext) if case.get("relative") else out.joiner_path,
                                          None, sr, sw, ch)
            out.joiner = o
        else:
            raise HarnessError(kind)
        observers.append(o)
    tkw = {}
    spell = case.get("tok_spell") or {}
    if spell.get("validator"):
        # the activity decision handed over as a validator object, under either name
        from auditok.util import AudioEnergyValidator

        tkw[spell["validator"]] = AudioEnergyValidator(thr, sw, ch, use_channel=rec.get("uc"))
    else:
        tkw[spell.get("eth", "energy_threshold")] = thr
        tkw[spell.get("uc", "use_channel")] = rec.get("uc")
    out.log_lines = []
    if case.get("logger"):
        tkw["logger"] = make_logger(out, sched)
    tokenizer = W.TokenizerWorker(proxy, observers, **tkw, **split_kwargs(case))
    out.tokenizer = tokenizer
    out.observers = observers
    out.workers = ([saver] if saver else []) + observers + [tokenizer]
    return out


def _start(out, case):
    late_saver = out.saver is not None and case.get("saver_start") == "after_tokenizer"
    if out.saver is not None and not late_saver:
        out.saver.start()
    order = case.get("start", "start_all")
    tokenizer, observers = out.tokenizer, out.observers
    if order == "start_all":
        tokenizer.start_all()
    elif order == "tokenizer_first":
        tokenizer.start()
        for o in observers:
            o.start()
    elif order == "tokenizer_middle":
        for o in observers[: len(observers) // 2]:
            o.start()
        tokenizer.start()
        for o in observers[len(observers) // 2:]:
            o.start()
    else:
        raise HarnessError(order)
    if late_saver:
        out.saver.start()  # blocks read meanwhile wait in the saver's inbox


def twin_case(case):
    """A second, independent pipeline run alongside the first one in the same process: another
    recording, its own saver and observer.  Nothing may leak between the two."""
    rec = dict(case["audio"])
    rec["salt"] = rec["salt"] + 1
    rec["pat"] = rec["pat"][::-1]
    rec.pop("shape", None)
    B, sr = rec["B"], rec["sr"]
    return {"audio": rec, "win": case["win"], "saver": {"cache": 3 * B / sr, "ext": ".wav"}, "observers": ["rec"],
            "start": "start_all"}


def run_pipeline(case, scheduled=True, stop_step=None, jitter=None, endless=False):
    rec = case["audio"]
    sr, sw, ch, B = rec["sr"], rec["sw"], rec["ch"], rec["B"]
    _ctr[0] += 1
    d = os.path.join(tmpdir(), f"pipe_{_ctr[0]}")
    os.makedirs(d, exist_ok=True)
    nsamples = len(rec["pat"]) * B + rec.get("tail", [0, 0])[0]
    nblocks = -(-nsamples // B)
    nthreads = 2 + len(case["observers"]) + (1 if case.get("saver") else 0)
    twin = bool(case.get("twin"))
    if twin:
        nthreads += 3
        nblocks *= 2
    limit = 50 * (nblocks + nblocks + nthreads) + 200 + (stop_step or 0 if scheduled else 0) + len(case.get("choices", ()))
    sched = Sched(case.get("choices", ()), step_limit=limit) if scheduled else None
    out = Run()
    out.failure = None
    out.stopped = False
    out.twin = None
    out.export_errors = []
    stdout = io.StringIO()
    old_stdout = sys.stdout
    workers = []
    cm = sched.installed() if scheduled else contextlib.nullcontext()
    cwd0 = os.getcwd()
    try:
        with cm:
            if case.get("relative"):
                os.chdir(d)  # bare relative file names, as typed on a command line
            _build(out, case, d, sched, jitter, endless)
            src, tokenizer = out.src, out.tokenizer
            workers = list(out.workers)
            if twin:
                d2 = os.path.join(d, "twin")
                os.makedirs(d2, exist_ok=True)
                out.twin = _build(Run(), twin_case(case), d2, sched, jitter, False)
                out.twin.case = twin_case(case)
                out.ignore_files |= {d2}
                workers += out.twin.workers
            sys.stdout = stdout
            import resource
            import tempfile

            old_tmp, old_lim = tempfile.tempdir, None
            if out.command is not None:
                tempfile.tempdir = out.cmd_dir
                # descriptors must not pile up with the number of detections: allow this run 40 more
                # than are open now (restored below)
                old_lim = resource.getrlimit(resource.RLIMIT_NOFILE)
                resource.setrlimit(resource.RLIMIT_NOFILE, (min(len(os.listdir("/proc/self/fd")) + 40, old_lim[0]), old_lim[1]))
            import datetime as _dt

            old_cwd, old_dt = os.getcwd(), W.datetime
            if case.get("clock_us") is not None:
                # the harness owns the clock the tokenizer worker stamps its detections with
                us = case["clock_us"]

                class _Clock(_dt.datetime):
                    @classmethod
                    def now(cls, tz=None):
                        return cls(2026, 9, 27, 23, 59, 59, us)

                W.datetime = _Clock
            try:
                _start(out, case)
                if twin:
                    _start(out.twin, out.twin.case)
                if stop_step is not None:
                    if scheduled:
                        sched.yield_point(
                            "wait-stop", enabled=lambda: sched.steps >= stop_step or sched.workers_done())
                    else:
                        time.sleep(stop_step)
                    out.stopped = True
                    out.blocks_at_stop = len(src.handed)
                    out.logs_at_stop = [len(o.log) for o in out.recs]
                    out.tokenizer_done_at_stop = (sched.rec_of(tokenizer).done if scheduled else None)
                    if case.get("stop_from_thread") and not scheduled:
                        # the program asks for the stop from a thread of its own (a GUI callback, a timer)
                        box = []

                        def _stopper():
                            try:
                                tokenizer.stop_all()
                            except BaseException as exc:  # noqa: BLE001
                                box.append(exc)

                        th_ = threading.Thread(target=_stopper)
                        th_.start()
                        th_.join(60)
                        out.stop_error = box[0] if box else None
                        out.stop_all_returned = not th_.is_alive() and not box
                        if not out.stop_all_returned:
                            src.abort = True  # let the threads end so that the verdict can be given
                            try:
                                tokenizer.stop_all()
                            except BaseException:  # noqa: BLE001
                                pass
                    else:
                        tokenizer.stop_all()
                        out.stop_all_returned = True
                for w in workers:
                    if scheduled:
                        w.join()
                    else:
                        threading.Thread.join(w, 60)
                        if w.is_alive():
                            raise HarnessError("free-running validation run: thread still alive after 60 s")
                # what the command line does once the threads are gone: export the recorded stream /
                # joined events under the name that was asked for
                for o in [out.saver, out.joiner] + ([out.twin.saver] if twin else []):
                    if o is not None:
                        try:
                            o.export_audio()
                        except Exception as exc:  # noqa: BLE001
                            out.export_errors.append(exc)
            except SchedAbort:
                pass
            finally:
                sys.stdout = old_stdout
                tempfile.tempdir = old_tmp
                W.datetime = old_dt
                os.chdir(old_cwd)
                if old_lim is not None:
                    resource.setrlimit(resource.RLIMIT_NOFILE, old_lim)
            if scheduled:
                out.failure = sched.failure
                sched.finish()
    finally:
        sys.stdout = old_stdout
        os.chdir(cwd0)
    # let every OS thread really end
    for w in workers:
        if w.ident is not None:
            threading.Thread.join(w, 10)
    out.alive = [type(w).__name__ for w in workers if w.is_alive()]
    out.stdout = stdout.getvalue()
    out.thread_errors = list(sched.thread_errors) if scheduled else []
    out.workers = workers
    if out.twin is not None:
        out.twin.stdout = ""
        out.twin.alive, out.twin.thread_errors, out.twin.failure = [], [], None
    return out


def release(run):
    """Drop every reference the harness holds to the workers of a finished run and collect them, as
    happens when a program is done with them (the savers have a __del__): the files they produced stay."""
    import gc

    for r in [run] + ([run.twin] if getattr(run, "twin", None) is not None else []):
        for name in ("saver", "joiner", "regsave", "printer", "command", "tokenizer", "observers", "workers", "proxy", "recs", "src",
                     "sched", "player", "wf_calls"):
            if hasattr(r, name):
                setattr(r, name, None)
    gc.collect()


def cleanup(run):
    d = run.dir
    for root, _dirs, files in os.walk(d, topdown=False):
        for f in files:
            try:
                os.remove(os.path.join(root, f))
            except OSError:
                pass
        try:
            os.rmdir(root)
        except OSError:
            pass
