"""Harness-owned deterministic scheduler for auditok.workers threads (C12-C14).

Exactly one registered thread runs at a time (baton passing with semaphores).
At every yield point the running thread gives the baton back and the scheduler
picks the next enabled thread from a list of small integers (Hypothesis drawn),
then - when the list is exhausted - by a fair policy (non-timeout actions
first, least recently run first).  Yield points: controlled Queue put / get /
get_nowait, Worker.start, Worker.join, thread exit, and whatever the harness
objects (source, observers, main thread) add.  Queue-wait timeouts fire only
when the scheduler says so, never by wall-clock time.

Nothing in /repo is modified: `installed()` rebinds auditok.workers.Queue and
Worker.start / Worker.join in the loaded module and restores them afterwards.
"""

import contextlib
import queue as _queue
import threading
import traceback
from collections import deque


class SchedAbort(BaseException):
    """Unwinds a thread once the scheduled run has been aborted."""


class _T:
    __slots__ = ("name", "sem", "enabled", "is_timeout", "done", "label", "last", "thread", "obj", "started")

    def __init__(self, name):
        self.name = name
        self.sem = threading.Semaphore(0)
        self.enabled = lambda: True
        self.is_timeout = lambda: False
        self.done = False
        self.label = "ready"
        self.last = -1
        self.thread = None
        self.obj = None
        self.started = False


_ACTIVE = None  # the scheduler currently installed (one per process at a time)


class Sched:
    def __init__(self, choices=(), step_limit=5000):
        self.choices = list(choices)
        self.ci = 0
        self.step_limit = step_limit
        self.steps = 0
        self.threads = []  # registration order
        self.by_thread = {}
        self.current = None
        self.finished = False
        self.aborted = False
        self.failure = None  # ("deadlock"|"steplimit", text)
        self.thread_errors = []  # [(name, exc, traceback text)]
        self.trace = []  # [(thread name, label, fired_timeout)]
        self.switches = 0
        self.timeouts = 0
        main = _T("main")
        main.thread = threading.current_thread()
        main.started = True
        self.threads.append(main)
        self.by_thread[main.thread] = main
        self.current = main
        self.main = main

    # ------------------------------------------------------------ helpers
    def me(self):
        return self.by_thread.get(threading.current_thread())

    def controlled(self):
        """True when the calling thread holds the baton of a live schedule."""
        if self.finished or self.aborted:
            return False
        t = self.me()
        return t is not None and t is self.current

    def workers_done(self):
        return all(t.done for t in self.threads if t is not self.main)

    # ------------------------------------------------------------ core
    def _abort(self, kind, text):
        if self.failure is None:
            self.failure = (kind, text)
        self.aborted = True
        for t in self.threads:
            if t is not self.me():
                t.sem.release()
        raise SchedAbort()

    def _describe(self):
        return "; ".join(
            f"{t.name}:{'done' if t.done else t.label}{'' if t.done or t.enabled() else '(blocked)'}"
            for t in self.threads
        )

    def _pick(self, exclude_done=True):
        cands = [t for t in self.threads if t.started and not t.done and t.enabled()]
        if not cands:
            alive = [t for t in self.threads if t.started and not t.done]
            if not alive:
                return None
            self._abort("deadlock", "no thread can make progress: " + self._describe())
        self.steps += 1
        if self.steps > self.step_limit:
            self._abort("steplimit", f"run not finished after {self.step_limit} scheduling steps: " + self._describe())
        if self.ci < len(self.choices):
            c = self.choices[self.ci]
            self.ci += 1
            if c < 0:
                # "starve the consumers": the most recently registered thread that can do
                # real work (not a queue-wait timeout) keeps the baton
                pool = [t for t in cands if not t.is_timeout()] or cands
                nxt = pool[-1]
            else:
                nxt = cands[c % len(cands)]
        else:
            nonto = [t for t in cands if not t.is_timeout()]
            pool = nonto or cands
            nxt = min(pool, key=lambda t: t.last)
        nxt.last = self.steps
        return nxt

    def yield_point(self, label, enabled=None, is_timeout=None):
        """Give the baton back; returns when this thread is scheduled again.
        Returns True if it was scheduled as a *timeout firing*."""
        if not self.controlled():
            if self.aborted and self.me() is not None and not self.finished:
                raise SchedAbort()
            return False
        me = self.current
        me.label = label
        me.enabled = enabled or (lambda: True)
        me.is_timeout = is_timeout or (lambda: False)
        nxt = self._pick()
        if nxt is not me:
            self.switches += 1
            self.current = nxt
            nxt.sem.release()
            me.sem.acquire()
            if self.aborted:
                raise SchedAbort()
            self.current = me
        fired = bool(me.is_timeout())
        if fired:
            self.timeouts += 1
        self.trace.append((me.name, label, fired))
        me.enabled = lambda: True
        me.is_timeout = lambda: False
        me.label = "running"
        return fired

    def spawn(self, worker, orig_start, name=None):
        """Register a new thread; it waits for the baton before running."""
        rec = _T(name or f"{type(worker).__name__}#{len(self.threads)}")
        rec.obj = worker
        orig_run = worker.run
        sched = self

        def wrapped():
            rec.thread = threading.current_thread()
            sched.by_thread[rec.thread] = rec
            rec.sem.acquire()
            if sched.aborted:
                rec.done = True
                return
            sched.current = rec
            try:
                orig_run()
            except SchedAbort:
                rec.done = True
                return
            except BaseException as exc:  # noqa: BLE001
                sched.thread_errors.append((rec.name, exc, traceback.format_exc()))
            sched._thread_exit(rec)

        worker.run = wrapped
        self.threads.append(rec)
        self.by_thread[worker] = rec  # Thread object == worker
        orig_start(worker)
        rec.started = True
        self.yield_point("start:" + rec.name)

    def _thread_exit(self, rec):
        rec.done = True
        if self.aborted or self.finished:
            return
        rec.label = "exit"
        self.trace.append((rec.name, "exit", False))
        try:
            nxt = self._pick()
        except SchedAbort:
            return
        if nxt is not None:
            self.switches += 1
            self.current = nxt
            nxt.sem.release()

    def rec_of(self, worker):
        return self.by_thread.get(worker)

    def finish(self):
        self.finished = True

    # ------------------------------------------------------------ install
    @contextlib.contextmanager
    def installed(self):
        global _ACTIVE
        import auditok.workers as W

        if _ACTIVE is not None:
            raise RuntimeError("a scheduler is already installed in this process")
        _ACTIVE = self
        saved = (W.Queue, W.Worker.__dict__.get("start"), W.Worker.__dict__.get("join"))
        orig_start = threading.Thread.start
        orig_join = threading.Thread.join
        sched = self

        def start(worker):
            if sched.controlled():
                sched.spawn(worker, orig_start)
            else:
                orig_start(worker)

        def join(worker, timeout=None):
            rec = sched.rec_of(worker)
            if sched.controlled() and rec is not None:
                if timeout is None:
                    sched.yield_point("join:" + rec.name, enabled=lambda: rec.done)
                    orig_join(worker, 10)
                else:
                    # a join with a timeout returns when the scheduler fires the timeout,
                    # whether or not the thread has ended
                    sched.yield_point("join-timeout:" + rec.name, enabled=lambda: True,
                                      is_timeout=lambda: not rec.done)
                    if rec.done:
                        orig_join(worker, 10)
                return
            if sched.aborted and not sched.finished and sched.me() is not None:
                raise SchedAbort()
            orig_join(worker, timeout)

        def is_alive(worker):
            """thread-liveness query = yield point, answered in model time"""
            rec = sched.rec_of(worker)
            if sched.controlled():
                sched.yield_point("is_alive")
                return rec is not None and rec.started and not rec.done
            return orig_is_alive(worker)

        orig_is_alive = threading.Thread.is_alive
        saved_alive = W.Worker.__dict__.get("is_alive")
        W.Queue = lambda maxsize=0, *a, **k: CQueue(sched, maxsize)
        W.Worker.start = start
        W.Worker.join = join
        W.Worker.is_alive = is_alive
        try:
            yield self
        finally:
            W.Queue = saved[0]
            for name, val in (("start", saved[1]), ("join", saved[2]), ("is_alive", saved_alive)):
                if val is None:
                    try:
                        delattr(W.Worker, name)
                    except AttributeError:
                        pass
                else:
                    setattr(W.Worker, name, val)
            self.finished = True
            _ACTIVE = None
            # let any thread still parked unwind
            self.aborted = True
            for t in self.threads:
                if not t.done and t is not self.main:
                    t.sem.release()


class CQueue:
    """FIFO whose operations are yield points of the scheduler alive at its
    creation; plain (non-blocking) operations otherwise.  Honours maxsize like
    queue.Queue: a blocking put waits for room, a put with a timeout may time
    out (queue.Full) when the scheduler fires the timeout."""

    SCALE_CAP = 48  # small-scope abstraction: a bound of 1024 behaves, for streams 20x shorter, like 48

    def __init__(self, sched, maxsize=0):
        self.s = sched
        self.d = deque()
        # A bounded queue is modelled with at most SCALE_CAP slots.  Blocking puts are unaffected by
        # the scale (they wait for room whatever the bound); a put that can give up (put_nowait /
        # timeout) on a bounded inbox loses messages for some stream length and observer lag anyway -
        # the scaled bound only brings that length within reach of the generated streams.
        self.maxsize = min(maxsize, self.SCALE_CAP) if maxsize and maxsize > 0 else 0
        self.declared_maxsize = maxsize or 0
        self.puts = 0
        self.put_log = []  # (item is a str marker, queue length before the put)

    def _full(self):
        return self.maxsize > 0 and len(self.d) >= self.maxsize

    def put(self, item, block=True, timeout=None):
        if not self.s.controlled():
            if self.s.aborted and not self.s.finished and self.s.me() is not None:
                raise SchedAbort()
            if self._full():
                raise _queue.Full
        elif not block:
            self.s.yield_point("put_nowait")
            if self._full():
                raise _queue.Full
        elif timeout is None:
            self.s.yield_point("put", enabled=lambda: not self._full())
        else:
            self.s.yield_point("put-timeout", enabled=lambda: True, is_timeout=self._full)
            if self._full():
                raise _queue.Full
        self.put_log.append((isinstance(item, str), len(self.d)))
        self.d.append(item)
        self.puts += 1

    def put_nowait(self, item):
        return self.put(item, block=False)

    def get(self, block=True, timeout=None):
        if not self.s.controlled():
            if self.s.aborted and not self.s.finished and self.s.me() is not None:
                raise SchedAbort()
            if self.d:
                return self.d.popleft()
            raise _queue.Empty
        if not block:
            return self.get_nowait()
        if timeout is None:
            self.s.yield_point("get", enabled=lambda: bool(self.d))
        else:
            self.s.yield_point("get-timeout", enabled=lambda: True, is_timeout=lambda: not self.d)
        if self.d:
            return self.d.popleft()
        raise _queue.Empty

    def get_nowait(self):
        self.s.yield_point("get_nowait")
        if self.d:
            return self.d.popleft()
        raise _queue.Empty

    def qsize(self):
        return len(self.d)

    def empty(self):
        return not self.d

    def full(self):
        return self._full()
