"""Shared plumbing of the /verif checks: repo import, recorder, job pool,
Hypothesis driver, violation/replay/evidence writers, known findings.

Everything here is harness code; nothing in this file judges auditok.
"""

import hashlib
import importlib
import json
import contextlib
import os
import sys
import tempfile
import time
import traceback
from collections import Counter

VERIF_DIR = os.path.dirname(os.path.dirname(os.path.abspath(__file__)))
REPO = os.path.abspath(os.environ.get("VERIF_REPO", "/repo"))
DEPS = os.path.join(VERIF_DIR, ".deps")

os.environ.setdefault("MPLBACKEND", "Agg")
os.environ.setdefault("PYTHONDONTWRITEBYTECODE", "1")
sys.dont_write_bytecode = True

if os.path.isdir(DEPS) and DEPS not in sys.path:
    sys.path.insert(0, DEPS)
if REPO not in sys.path:
    sys.path.insert(0, REPO)

_TMP = None


def tmpdir():
    """Per-process private scratch directory (removed at exit by run.py)."""
    global _TMP
    if _TMP is None or _TMP[0] != os.getpid():
        root = os.environ.get("VF_TMPROOT") or None
        d = tempfile.mkdtemp(prefix="vf-", dir=root)
        _TMP = (os.getpid(), d)
    return _TMP[1]


def import_auditok():
    os.environ.setdefault("MPLCONFIGDIR", tmpdir())
    import auditok  # noqa: F401

    path = os.path.abspath(auditok.__file__)
    if not path.startswith(REPO + os.sep):
        raise HarnessError(f"auditok imported from {path}, expected {REPO}")
    return auditok


class HarnessError(Exception):
    """Something is wrong with the check itself (exit 2, never a VIOLATION)."""


class Violation(Exception):
    def __init__(self, msg, case=None):
        super().__init__(msg)
        self.msg = msg
        self.case = case


def canon(obj):
    return json.dumps(obj, sort_keys=True, separators=(",", ":"), default=repr)


def h64(obj):
    return int.from_bytes(
        hashlib.blake2b(canon(obj).encode(), digest_size=8).digest(), "big"
    )


class Rec:
    """Per-job recorder.  `note` is called once per executed case."""

    MAX_SAMPLES = 3

    def __init__(self):
        self.evaluations = 0
        self.nt = set()
        self.classes = Counter()
        self.samples = []
        self.failures = []  # [(case, msg)]
        self.excluded_known = Counter()
        self.extra = Counter()  # free-form additive counters

    def note(self, case, nontrivial, classes=(), out=None):
        self.evaluations += 1
        for c in classes:
            self.classes[c] += 1
        if nontrivial:
            hv = h64(case)
            if hv not in self.nt:
                self.nt.add(hv)
                if len(self.samples) < self.MAX_SAMPLES:
                    self.samples.append({"case": case, "observed": out})

    def dump(self):
        return {
            "evaluations": self.evaluations,
            "nt": self.nt,
            "classes": self.classes,
            "samples": self.samples,
            "failures": self.failures,
            "excluded_known": self.excluded_known,
            "extra": self.extra,
        }


# --------------------------------------------------------------------------
# known findings
# --------------------------------------------------------------------------

_KNOWN = None


def known_findings():
    global _KNOWN
    if _KNOWN is None:
        path = os.path.join(VERIF_DIR, "known_findings.json")
        with open(path) as fp:
            _KNOWN = json.load(fp)["findings"]
    return _KNOWN


def match_known(mod, case, msg):
    """Return the id of the *known* (unrepaired) finding this failure is an
    instance of, or None.  'fixed' entries never match anything."""
    preds = getattr(mod, "KNOWN", {})
    for entry in known_findings():
        if entry.get("status") != "known" or entry.get("property") != mod.ID:
            continue
        pred = preds.get(entry.get("match", {}).get("predicate"))
        if pred is not None and pred(case, msg):
            return entry["id"]
    return None


# --------------------------------------------------------------------------
# running one case
# --------------------------------------------------------------------------

_HARNESS_ROOT = os.path.join(VERIF_DIR, "vf") + os.sep
_REPO_ROOT = REPO + os.sep


def _blame(exc):
    """Decide whether an unexpected exception comes from the library ('repo')
    or from the harness: the innermost traceback frame that belongs to either
    decides (frames of stdlib/numpy/hypothesis are skipped)."""
    frames = traceback.extract_tb(exc.__traceback__)
    for fr in reversed(frames):
        fn = os.path.abspath(fr.filename)
        if fn.startswith(_REPO_ROOT):
            return "repo", f"{os.path.relpath(fn, REPO)}:{fr.lineno}"
        if fn.startswith(_HARNESS_ROOT):
            return "harness", f"{fn}:{fr.lineno}"
    return "harness", "?"


class AbortJob(BaseException):
    """Ends the current job at once (no shrinking): raised when the library
    did not return - every further attempt would burn the CPU budget again."""

    def __init__(self, case, msg):
        super().__init__(msg)
        self.case = case
        self.msg = msg


IN_JOB = False


def _hang(case, exc):
    msg = f"a call into the library did not return: {exc}"
    if IN_JOB:
        raise AbortJob(case, msg) from exc
    raise Violation(msg, case) from exc


class CpuBudgetExceeded(Exception):
    """Raised (by SIGVTALRM) inside a case that burnt its CPU budget: an endless
    loop.  CPU time, not wall time, so machine load cannot trigger it."""


CASE_CPU_BUDGET = float(os.environ.get("VF_CASE_CPU_BUDGET", "40"))
_budget_depth = [0]


def _on_vtalrm(_sig, frm):
    """Only interrupt *library* code: if the CPU budget runs out while the
    interpreter is somewhere else (numpy, Hypothesis, the harness, a gc
    callback), look again a little later.  An endless loop in the library is
    caught on one of the next ticks; anything else is left to the pool watchdog."""
    import signal

    global CASE_CPU_BUDGET
    fn = os.path.abspath(frm.f_code.co_filename) if frm is not None else ""
    if fn.startswith(_REPO_ROOT):
        budget = CASE_CPU_BUDGET
        CASE_CPU_BUDGET = min(CASE_CPU_BUDGET, 3.0)  # the tree is failing: do not pay the full budget again
        raise CpuBudgetExceeded(
            f"no result after {budget:.0f} s of CPU time, still executing {os.path.relpath(fn, REPO)}:{frm.f_lineno}")
    signal.setitimer(signal.ITIMER_VIRTUAL, 0.05)


class cpu_budget:
    """Arms a CPU-time alarm around one case (main thread of a process only)."""

    def __enter__(self):
        import signal
        import threading

        self.armed = False
        if threading.current_thread() is threading.main_thread() and _budget_depth[0] == 0:
            try:
                signal.signal(signal.SIGVTALRM, _on_vtalrm)
                signal.setitimer(signal.ITIMER_VIRTUAL, CASE_CPU_BUDGET)
                self.armed = True
                _budget_depth[0] += 1
            except (ValueError, OSError, AttributeError):
                pass
        return self

    def __exit__(self, *exc):
        import signal

        if self.armed:
            signal.setitimer(signal.ITIMER_VIRTUAL, 0)
            _budget_depth[0] -= 1
        return False


def checked(mod, case, rec):
    """Run mod.check_case(case, rec).  Violations that are instances of a
    listed known finding are counted and swallowed so the search goes on.
    Exceptions raised by the library where the harness expected a value are
    violations; exceptions raised by harness code are harness errors."""
    try:
        with cpu_budget():
            mod.check_case(case, rec)
    except Violation as v:
        if v.case is None:
            v.case = case
        k = match_known(mod, v.case, v.msg)
        if k is not None:
            rec.excluded_known[k] += 1
            return
        raise
    except HarnessError:
        raise
    except CpuBudgetExceeded as exc:
        _hang(case, exc)
    except Exception as exc:  # noqa: BLE001
        who, where = _blame(exc)
        if who == "repo":
            msg = (
                f"unexpected {type(exc).__name__}: {exc} raised at {where} "
                "where the property promises a result"
            )
            k = match_known(mod, case, msg)
            if k is not None:
                rec.excluded_known[k] += 1
                return
            raise Violation(msg, case) from exc
        raise


class lib_guard:
    """Context manager for code outside `checked` (state machines): an
    exception raised by the library becomes a Violation carrying `case`."""

    def __init__(self, case_fn):
        self.case_fn = case_fn
        self.budget = cpu_budget()

    def __enter__(self):
        self.budget.__enter__()
        return self

    def __exit__(self, et, exc, tb):
        self.budget.__exit__(et, exc, tb)
        if exc is None or isinstance(exc, (Violation, HarnessError)):
            return False
        if isinstance(exc, CpuBudgetExceeded):
            _hang(self.case_fn(), exc)
        if not isinstance(exc, Exception):
            return False
        who, where = _blame(exc)
        if who == "repo":
            raise Violation(
                f"unexpected {type(exc).__name__}: {exc} raised at {where} "
                "where the property promises a result",
                self.case_fn(),
            ) from exc
        return False


def run_cases(mod, cases, rec, stop_at_first=True):
    """Plain loop over deterministic cases (explicit, regression, exhaustive)."""
    for case in cases:
        try:
            checked(mod, case, rec)
        except Violation as v:
            rec.failures.append((v.case, v.msg))
            if stop_at_first:
                return


def hyp_settings(max_examples, shrink=True, **kw):
    from hypothesis import HealthCheck, Phase, settings

    phases = [Phase.generate, Phase.target]
    if shrink:
        phases.append(Phase.shrink)
    return settings(
        max_examples=max_examples,
        database=None,
        deadline=None,
        derandomize=False,
        report_multiple_bugs=False,
        suppress_health_check=list(HealthCheck),
        phases=phases,
        **kw,
    )


def _violation_in(exc):
    """A Violation buried in Hypothesis' Flaky / exception-group reports (a failure that did not
    repeat on Hypothesis' own replay - timing-dependent cases such as real pipes)."""
    seen = set()
    stack = [exc]
    while stack:
        e = stack.pop()
        if id(e) in seen or e is None:
            continue
        seen.add(id(e))
        if isinstance(e, Violation):
            return e
        stack.extend(getattr(e, "exceptions", ()) or ())
        stack.append(e.__cause__)
        stack.append(e.__context__)
    return None


def hyp_run(mod, strategy, rec, seed, max_examples, shrink=True):
    """Drive mod.check_case with cases drawn from `strategy`."""
    import hypothesis
    from hypothesis import given

    @hypothesis.seed(seed)
    @hyp_settings(max_examples, shrink)
    @given(strategy)
    def prop(case):
        checked(mod, case, rec)

    try:
        prop()
    except Violation as v:
        rec.failures.append((v.case, v.msg))
    except Exception as exc:  # noqa: BLE001
        v = _violation_in(exc)
        if v is None:
            raise
        rec.extra["flaky_failures"] += 1
        rec.failures.append((v.case, v.msg))


def hyp_run_machine(mod, machine_cls, rec, seed, max_examples, steps, shrink=True):
    """Drive a RuleBasedStateMachine.  The machine is expected to raise
    Violation (with .case = the replayable history) itself."""
    import hypothesis
    from hypothesis.stateful import run_state_machine_as_test

    machine_cls.rec = rec
    try:
        run_state_machine_as_test(
            hypothesis.seed(seed)(machine_cls),
            settings=hyp_settings(
                max_examples, shrink, stateful_step_count=steps
            ),
        )
    except Exception as exc:  # noqa: BLE001
        v = exc if isinstance(exc, Violation) else _violation_in(exc)
        if v is None:
            raise
        if not isinstance(exc, Violation):
            rec.extra["flaky_failures"] += 1
        k = match_known(mod, v.case, v.msg)
        if k is not None:
            # a machine cannot swallow and go on mid-history; count it
            rec.excluded_known[k] += 1
        else:
            rec.failures.append((v.case, v.msg))


# --------------------------------------------------------------------------
# job pool
# --------------------------------------------------------------------------


def explicit_and_regression_cases(mod):
    import glob

    reg_cases = []
    for path in sorted(glob.glob(os.path.join(VERIF_DIR, "regressions", f"{mod.ID}-*.json"))):
        with open(path) as fp:
            reg_cases.append(json.load(fp)["case"])
    explicit = list(mod.explicit_cases()) if hasattr(mod, "explicit_cases") else []
    return reg_cases, explicit


def _job_entry(args):
    global IN_JOB
    modname, job = args
    mod = importlib.import_module(modname)
    rec = Rec()
    t0 = time.time()
    err = None
    IN_JOB = True
    try:
        if job.get("kind") == "__optimized__":
            run_optimized(mod, rec)
        elif job.get("kind") == "__explicit__":
            reg_cases, explicit = explicit_and_regression_cases(mod)
            run_cases(mod, reg_cases + explicit, rec, stop_at_first=False)
            rec.extra["regression_cases"] += len(reg_cases)
            rec.extra["explicit_cases"] += len(explicit)
        else:
            mod.run_job(job, rec)
    except Violation as v:  # a job may let a violation escape
        rec.failures.append((v.case, v.msg))
    except AbortJob as a:
        rec.failures.append((a.case, a.msg))
    except Exception:  # noqa: BLE001
        err = traceback.format_exc()
    finally:
        IN_JOB = False
    d = rec.dump()
    d["error"] = err
    d["job"] = job.get("name", "?")
    d["wall"] = time.time() - t0
    return d


def checked_anywhere(mod, case, rec):
    """checked(), in the interpreter mode the case asks for: a case found under `python -O` is
    confirmed / replayed under `python -O`."""
    if isinstance(case, dict) and case.get("python_O"):
        import subprocess
        import tempfile

        plain = {k: v for k, v in case.items() if k != "python_O"}
        with tempfile.NamedTemporaryFile("w", suffix=".json", delete=False) as fp:
            json.dump(plain, fp)
            path = fp.name
        try:
            r = subprocess.run([sys.executable, "-O", "-m", "vf.optrun", mod.ID, "--case", path], cwd=VERIF_DIR,
                               capture_output=True, text=True, env=dict(os.environ, PYTHONOPTIMIZE="1"), timeout=600)
        finally:
            os.remove(path)
        lines = [ln for ln in r.stdout.splitlines() if ln.startswith("OPTRUN ")]
        if r.returncode != 0 or not lines:
            raise HarnessError(f"python -O child failed: {r.returncode} {r.stderr[-800:]}")
        out = json.loads(lines[-1][7:])
        rec.evaluations += out["evaluations"]
        if out["failures"]:
            raise Violation("under python -O: " + out["failures"][0][1], case)
        return
    checked(mod, case, rec)


def run_optimized(mod, rec):
    """The deterministic members of a property once more in a `python -O` child: the library must not
    lean on assert statements (or __debug__) for its behaviour."""
    import subprocess

    r = subprocess.run(
        [sys.executable, "-O", "-m", "vf.optrun", mod.ID], cwd=VERIF_DIR, capture_output=True, text=True,
        env=dict(os.environ, PYTHONOPTIMIZE="1"), timeout=600)
    lines = [ln for ln in r.stdout.splitlines() if ln.startswith("OPTRUN ")]
    if r.returncode != 0 or not lines:
        raise HarnessError(f"python -O child failed: {r.returncode} {r.stderr[-800:]}")
    out = json.loads(lines[-1][7:])
    rec.extra["cases_under_python_O"] += out["evaluations"]
    rec.evaluations += out["evaluations"]
    rec.classes["run_under_python_O"] += out["evaluations"]
    for case, msg in out["failures"]:
        rec.failures.append((dict(case, python_O=True) if isinstance(case, dict) else case, "under python -O: " + msg))


def run_jobs(mod, jobs, procs=None, stall_limit=300):
    """Run the jobs in a fork pool.  Watchdog: if no job finishes for
    `stall_limit` seconds the pool is torn down and the run reported as
    inconclusive (a library call that never returns must not hang the check)."""
    import multiprocessing as mp

    procs = procs or min(16, os.cpu_count() or 1)
    args = [(mod.__name__, j) for j in jobs]
    if procs <= 1:
        return [_job_entry(a) for a in args]
    ctx = mp.get_context("fork")
    out = []
    pool = ctx.Pool(procs, maxtasksperchild=None)
    try:
        it = pool.imap_unordered(_job_entry, args, chunksize=1)
        for _ in args:
            try:
                out.append(it.next(timeout=stall_limit))
            except mp.TimeoutError:
                pending = sorted({j.get("name", "?") for j in jobs} - {r["job"] for r in out})
                out.append({"evaluations": 0, "nt": set(), "classes": Counter(), "samples": [], "failures": [],
                            "excluded_known": Counter(), "extra": Counter({"watchdog_timeouts": 1}),
                            "error": f"TIMEOUT: no job finished within {stall_limit} s; unfinished jobs: {pending[:8]} "
                                     "(a call into the library did not return, or the machine is overloaded) - inconclusive",
                            "job": "watchdog", "wall": stall_limit})
                break
    finally:
        pool.terminate()
        pool.join()
    return out


def merge(results):
    tot = Rec()
    errors = []
    per_job = []
    for r in results:
        tot.evaluations += r["evaluations"]
        tot.nt |= r["nt"]
        tot.classes.update(r["classes"])
        tot.excluded_known.update(r["excluded_known"])
        tot.extra.update(r["extra"])
        tot.failures.extend(r["failures"])
        for s in r["samples"]:
            if len(tot.samples) < 8:
                tot.samples.append(s)
        if r["error"]:
            errors.append((r["job"], r["error"]))
        per_job.append((r["job"], r["evaluations"], round(r["wall"], 2)))
    return tot, errors, per_job


def case_size(case):
    return len(canon(case))


def write_replay(mod, case, msg, tier, seed):
    d = os.path.join(VERIF_DIR, "replays")
    os.makedirs(d, exist_ok=True)
    body = {
        "property": mod.ID,
        "message": msg,
        "tier": tier,
        "seed": seed,
        "case": case,
    }
    sha = hashlib.sha1(canon(case).encode()).hexdigest()[:8]
    path = os.path.join(d, f"{mod.ID}-{sha}.json")
    with open(path, "w") as fp:
        json.dump(body, fp, indent=1, sort_keys=True, default=repr)
    return os.path.relpath(path, VERIF_DIR)


def write_evidence(mod, tier, seed, tot, wall, violations, extra_cov=None):
    d = os.path.join(VERIF_DIR, "evidence")
    if REPO != "/repo":
        # a scratch copy (tools/seeded.py, tools/mutate.py): the committed evidence describes /repo only
        d = os.path.join(os.environ.get("VF_TMPROOT") or tempfile.gettempdir(), "evidence")
    os.makedirs(d, exist_ok=True)
    cov = {
        "evaluations": tot.evaluations,
        "distinct_nontrivial": len(tot.nt),
        "rule": mod.RULE,
        "samples": tot.samples,
        "classes": dict(sorted(tot.classes.items())),
        "must_hit": {c: tot.classes.get(c, 0) for c in getattr(mod, "MUST_HIT", [])},
        "excluded_known": dict(tot.excluded_known),
    }
    if tot.extra:
        cov["counters"] = dict(sorted(tot.extra.items()))
    if extra_cov:
        cov.update(extra_cov)
    ev = {
        "property_id": mod.ID,
        "tier": tier,
        "seed": seed,
        "level": getattr(mod, "LEVEL", "exploration"),
        "coverage": cov,
        "assumptions": list(getattr(mod, "ASSUMPTIONS", [])),
        "wall_s": round(wall, 2),
        "violations": violations,
    }
    path = os.path.join(d, f"{mod.ID}.json")
    tmp = path + ".tmp"
    with open(tmp, "w") as fp:
        json.dump(ev, fp, indent=1, default=repr)
        fp.write("\n")
    os.replace(tmp, path)
    return path


@contextlib.contextmanager
def preempt_every_line():
    """Threads started inside this block give up the interpreter at every line they execute in a file of
    the repository: a thread switch becomes likely between any two statements of the library, also where
    the window is two bytecodes wide.  (Schedules are not owned - this only amplifies; a member using it can
    miss a race, it cannot report one that is not there.)"""
    import threading
    import time as _t

    def tracer(frame, event, _arg):
        if frame.f_code.co_filename.startswith(REPO + os.sep):
            if event == "line":
                _t.sleep(0)
            return tracer
        return None

    old = threading.gettrace() if hasattr(threading, "gettrace") else None
    threading.settrace(tracer)
    try:
        yield
    finally:
        threading.settrace(old)
