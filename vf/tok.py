"""Harness around auditok.core.StreamTokenizer used by C01-C04, C08, C20.

A tokenizer case is a JSON dict
  {"pat": "0110..", "p": [min, max, sil, init_min, init_sil, mode],
   "kind": "obj"|"char"|"bytes", "deliv": "list"|"gen"|"cb"}
"""

from .common import HarnessError, import_auditok

import_auditok()

from auditok.core import StreamTokenizer  # noqa: E402
from auditok.util import DataSource, DataValidator, StringDataSource  # noqa: E402

KINDS = ("obj", "char", "bytes", "int")
# kinds used by the generated (not the exhaustive) cases in addition: "np" (numpy-bool verdicts), "nparr"
# (numpy array frames), "emptysil" (silent frames are empty bytes objects), "stateful" (a validator
# whose answer depends on how many frames it has judged)
MORE_KINDS = ("np", "nparr", "emptysil", "stateful")
DELIVS = ("list", "gen", "cb")


class Frame:
    """Unique frame object: identity tells which stream position it came from."""

    __slots__ = ("idx", "bit")

    def __init__(self, idx, bit):
        self.idx = idx
        self.bit = bit

    def __repr__(self):
        return f"F{self.idx}{'V' if self.bit else '-'}"


class ListSource(DataSource):
    """Hands out the given frames one per read(), then None; counts reads."""

    def __init__(self, frames):
        self.frames = frames
        self.pos = 0
        self.reads = 0  # number of read() calls made so far
        self.none_returns = 0

    def read(self):
        self.reads += 1
        if self.pos >= len(self.frames):
            self.none_returns += 1
            return None
        f = self.frames[self.pos]
        self.pos += 1
        return f


class DuckSource:
    """Same as ListSource without inheriting from DataSource (any object with read() is a source)."""

    def __init__(self, frames):
        self.frames = frames
        self.pos = 0
        self.reads = 0
        self.none_returns = 0

    read = ListSource.read


class CountingValidator(DataValidator):
    """A validator with a memory (think of an adaptive threshold): its k-th answer is the k-th bit of
    the pattern.  It is only meaningful if every frame is judged once, in stream order - which is
    what a validator that depends on earlier calls needs from the tokenizer."""

    def __init__(self, frames):
        self.frames = frames
        self.k = 0
        self.out_of_order = None

    def is_valid(self, frame):
        k = self.k
        self.k += 1
        if k >= len(self.frames) or frame is not self.frames[k]:
            if self.out_of_order is None:
                self.out_of_order = (k, repr(frame))
            return False
        return frame.bit


class UpperValidator(DataValidator):
    def is_valid(self, frame):
        return frame.isupper()


class ByteValidator(DataValidator):
    def is_valid(self, frame):
        return frame[0] == 1


def obj_valid(frame):
    return frame.bit


def int_valid(frame):
    return frame == 1


def np_valid(frame):
    """a validator whose verdict is a numpy bool, like AudioEnergyValidator's"""
    import numpy as np

    return np.bool_(frame.bit)


def make_stream(pat, kind, src="ds"):
    """-> (frames, validator, source).  frames[i] is what position i holds."""
    Source = DuckSource if src == "duck" else ListSource
    if kind in ("obj", "np"):
        frames = [Frame(i, c == "1") for i, c in enumerate(pat)]
        return frames, (obj_valid if kind == "obj" else np_valid), Source(frames)
    if kind == "stateful":
        frames = [Frame(i, c == "1") for i, c in enumerate(pat)]
        return frames, CountingValidator(frames), Source(frames)
    if kind == "nparr":
        import numpy as np

        frames = [np.array([1 if c == "1" else 0, i & 0x7FFF, 7], dtype=np.int16) for i, c in enumerate(pat)]
        return frames, (lambda f: f[0] == 1), Source(frames)
    if kind == "emptysil":
        # silent frames are empty (a source that has nothing to hand out right now): still frames
        frames = [bytes([1, i & 255]) if c == "1" else (b"" if i % 2 else bytearray()) for i, c in enumerate(pat)]
        return frames, (lambda f: len(f) > 0), Source(frames)
    if kind == "char":
        frames = ["A" if c == "1" else "a" for c in pat]
        return frames, UpperValidator(), StringDataSource("".join(frames))
    if kind == "bytes":
        frames = [bytes([1 if c == "1" else 0, i & 255]) for i, c in enumerate(pat)]
        return frames, ByteValidator(), Source(frames)
    if kind == "int":
        # frames that are falsy objects (0) must still be frames, not "end of stream"
        frames = [1 if c == "1" else 0 for c in pat]
        return frames, int_valid, Source(frames)
    raise HarnessError(f"unknown frame kind {kind}")


def frame_valid(frame, kind):
    if kind in ("obj", "np", "stateful"):
        return frame.bit
    if kind == "nparr":
        return bool(frame[0] == 1)
    if kind == "emptysil":
        return len(frame) > 0
    if kind == "char":
        return frame.isupper()
    if kind == "int":
        return frame == 1
    return frame[0] == 1


def make_tokenizer(validator, p):
    mn, mx, sil, imin, isil, mode = p
    if (mn + sil + imin) % 2:
        # positional, in the documented order (validator, min_length, max_length, max_continuous_silence,
        # init_min, init_max_silence, mode)
        return StreamTokenizer(validator, mn, mx, sil, imin, isil, mode)
    return StreamTokenizer(
        validator, mn, mx, sil, init_min=imin, init_max_silence=isil, mode=mode
    )


def deliver(tk, source, deliv, on_token=None):
    """Run the tokenizer in the given delivery mode.  Returns the list of
    (frames, start, end) exactly as handed over; `on_token(tok)` is invoked at
    the moment of hand-over (generator item received / callback invoked)."""
    out = []
    if deliv == "list":
        res = tk.tokenize(source)
        if not isinstance(res, list):
            raise_violation(f"tokenize() returned {type(res).__name__}, not list")
        for t in res:
            out.append(t)
            if on_token:
                on_token(t)
    elif deliv == "gen":
        for t in tk.tokenize(source, generator=True):
            out.append(t)
            if on_token:
                on_token(t)
    elif deliv == "cb":

        def cb(*a):
            out.append(tuple(a))
            if on_token:
                on_token(tuple(a))
            return len(out)  # what a callback returns is its own business (here: a running count)

        tk.tokenize(source, callback=cb)
    else:
        raise HarnessError(deliv)
    return out


def raise_violation(msg):
    from .common import Violation

    raise Violation(msg)


def prepare(case):
    """-> (frames, source, tokenizer).  With case["pre"] = {"pat", "how"} the
    tokenizer has already been used on another stream (complete list run, or a
    generator advanced k items and abandoned): every tokenizer property must
    hold for such a tokenizer as well."""
    kind = case.get("kind", "obj")
    pre = case.get("pre")
    if kind == "stateful" and pre:
        kind = "obj"  # (a validator with a memory is paired with a single stream)
    skip = case.get("skip") or ""
    frames, validator, source = make_stream(skip + case["pat"], kind, case.get("src", "ds"))
    if skip:
        # the source has already handed out frames to someone else: the stream the tokenizer sees starts
        # where the source stands
        for _ in skip:
            source.read()
        frames = frames[len(skip):]
        if kind == "stateful":
            validator.frames = frames
    tk = make_tokenizer(validator, case["p"])
    if pre:
        _f0, _v0, s0 = make_stream(pre["pat"], kind, case.get("src", "ds"))
        how = pre.get("how", "list")
        if how == "list":
            earlier = tk.tokenize(s0)
            # what the caller got must stay what it is, whatever the tokenizer is used for next
            tk._vf_earlier = (earlier, [(list(fr), s, e) for fr, s, e in earlier])
        elif how[0] == "gen":
            g = tk.tokenize(s0, generator=True)
            for _ in range(how[1]):
                try:
                    next(g)
                except StopIteration:
                    break
            tk._vf_keepalive = g  # abandoned, not closed
        elif how[0] == "raise":
            # the earlier run is interrupted by an exception coming out of the data source
            class _Boom(Exception):
                pass

            class _Failing(DataSource):
                def __init__(self, inner, after):
                    self.inner, self.left = inner, after

                def read(self):
                    if self.left <= 0:
                        raise _Boom()
                    self.left -= 1
                    return self.inner.read()

            try:
                if how[2] == "list":
                    tk.tokenize(_Failing(s0, how[1]))
                else:
                    for _t in tk.tokenize(_Failing(s0, how[1]), generator=True):
                        pass
            except _Boom:
                pass
        elif how[0] in ("two_gens", "close_mid"):
            tk._vf_pre_source = s0  # handled by run_case
        else:
            raise HarnessError(how)
    return frames, source, tk


def run_case(case):
    """-> (frames, tokens) for a tokenizer case dict.

    pre.how variants that interleave two generator objects of one tokenizer
    (the main run is then in generator mode):
      ["two_gens"]        both generators are requested first, the earlier stream's is consumed
                          completely, then the main one: the main run starts after a complete run
      ["close_mid", k, j] the earlier generator is advanced k items and abandoned, the main one
                          yields j tokens, the abandoned one is closed (as the garbage collector
                          would), the main one continues
    """
    frames, source, tk = prepare(case)
    pre = case.get("pre")
    how = pre.get("how") if pre else None
    if how and how[0] == "two_gens":
        g1 = tk.tokenize(tk._vf_pre_source, generator=True)
        g2 = tk.tokenize(source, generator=True)
        for _t in g1:
            pass
        return frames, list(g2)
    if how and how[0] == "close_mid":
        g1 = tk.tokenize(tk._vf_pre_source, generator=True)
        for _ in range(how[1]):
            try:
                next(g1)
            except StopIteration:
                break
        g2 = tk.tokenize(source, generator=True)
        toks = []
        for _ in range(how[2]):
            try:
                toks.append(next(g2))
            except StopIteration:
                return frames, toks
        g1.close()
        del g1
        toks.extend(g2)
        return frames, toks
    toks = deliver(tk, source, case.get("deliv", "list"))
    check_earlier(tk, toks)
    return frames, toks


def check_earlier(tk, later):
    """tokens handed out by an earlier list-mode run of this tokenizer are still intact and are not
    the object handed out now"""
    saved = getattr(tk, "_vf_earlier", None)
    if saved is None:
        return
    earlier, snapshot = saved
    now = [(list(fr), s, e) for fr, s, e in earlier]
    if now != snapshot:
        raise_violation(
            f"the token list returned by an earlier run changed after the tokenizer was used again: "
            f"{[(len(f), s, e) for f, s, e in now]} was {[(len(f), s, e) for f, s, e in snapshot]}")
    if earlier is later and (earlier or later):
        raise_violation("a later run returned the very list object an earlier run had returned")


def spans(tokens):
    return [(t[1], t[2]) for t in tokens]
