"""Audio synthesis from a validity pattern (DESIGN 3.3) and the strategies
that draw such recordings.  A recording is a JSON dict

  {"sr","sw","ch","B","pat","tail":[k,bit],"al","aq","salt","uc"}

B = analysis window in samples, pat[i] says whether window i is meant to be
active, tail = partial last window of k<B samples, al/aq = loud/quiet
amplitudes, uc = channel selection the recording is built for.  synth() is a
pure function of that dict; the *decisions* used by the oracles are computed
from the produced bytes with the exact energy oracle, not from `pat`.
"""

from fractions import Fraction

from hypothesis import strategies as st

from . import oracles
from .common import HarnessError

RATES = (8, 10, 16, 100, 1000, 8000, 16000, 44100)
MAXV = {1: 127, 2: 32767, 4: 2147483647}
MIX = ("mix", "avg", "average")


def _h(salt, i):
    x = (salt * 2654435761 + i * 40503 + 12345) & 0xFFFFFFFF
    x ^= x >> 13
    x = (x * 1274126177) & 0xFFFFFFFF
    return x ^ (x >> 16)


def threshold_db(al, aq):
    import math

    lo = 20 * math.log10(max(aq, 1))
    hi = 20 * math.log10(al)
    return round((lo + hi) / 2, 3)


def synth(rec):
    """-> (data bytes, threshold dB)."""
    sw, ch, B, pat = rec["sw"], rec["ch"], rec["B"], rec["pat"]
    al, aq, salt, uc = rec["al"], rec["aq"], rec["salt"], rec.get("uc")
    k, tbit = rec.get("tail", [0, 0])
    maxv = MAXV[sw]
    hi = min(2 * al, maxv)
    out = bytearray()
    windows = [(B, c == "1") for c in pat]
    if k:
        windows.append((k, bool(tbit)))
    pos = 0
    for wi, (ln, loud) in enumerate(windows):
        if not loud and aq == 0 and not isinstance(uc, int):
            out += bytes(ln * ch * sw)  # digital silence on every channel
            pos += ln
            continue
        hw = _h(salt, 7919 * (wi + 1))
        if ch == 1 or uc in MIX:
            loudset = set(range(ch)) if loud else set()
        elif isinstance(uc, int):
            sel = uc % ch
            loudset = {c for c in range(ch) if (hw >> c) & 1}
            loudset.discard(sel)
            if loud:
                loudset.add(sel)
        else:  # any
            if loud:
                loudset = {c for c in range(ch) if (hw >> c) & 1}
                if not loudset:
                    loudset = {hw % ch}
            else:
                loudset = set()
        for i in range(ln):
            hs = _h(salt, pos + i)
            sign = -1 if hs & 1 else 1
            for c in range(ch):
                hc = _h(salt ^ (c * 977), pos + i)
                if c in loudset:
                    mag = al + (hc % (hi - al + 1))
                    sg = sign if uc in MIX else (-1 if hc & 2 else 1)
                    v = sg * mag
                else:
                    v = (hc % (2 * aq + 1)) - aq if aq else 0
                out += int(v).to_bytes(sw, "little", signed=True)
        pos += ln
    if rec.get("thr0"):
        # threshold exactly 0 dB (a falsy value): quiet = digital silence, loud >= 6 dB
        if aq != 0 or al < 2:
            raise HarnessError("thr0 recordings need aq == 0 and al >= 2")
        return bytes(out), 0.0
    return bytes(out), threshold_db(al, aq)


def decisions(data, rec, thr, uc="__rec__", guard=True):
    """Exact per-window activity decisions of the produced bytes (energy
    oracle), with a guard-band self-check of the construction."""
    sw, ch, B = rec["sw"], rec["ch"], rec["B"]
    if uc == "__rec__":
        uc = rec.get("uc")
    bps = sw * ch
    n = len(data) // bps
    out = []
    for s in range(0, n, B):
        w = data[s * bps : min(s + B, n) * bps]
        if thr > -200 and not any(w):
            out.append(False)  # all-zero window: -200 dB
            continue
        e = oracles.energy_db(w, sw, ch, uc)
        if guard and abs(float(e) - thr) < 3:
            raise HarnessError(f"synthesized window energy {e} within 3 dB of threshold {thr}")
        out.append(float(e) >= thr)
    return out


def window_arg(B, sr):
    """A float analysis window whose exact product with sr floors to B with
    no float ambiguity."""
    for cand in (B / sr, (B + 0.5) / sr, (B + 0.25) / sr):
        q = Fraction(cand) * sr
        if B <= q < B + 1 - Fraction(1, 10**6):
            return cand
    raise HarnessError(f"no unambiguous window for B={B} sr={sr}")


@st.composite
def recording(draw, maxwin=30, maxB=12, channels=(1, 2, 3, 4), uc_any=True, pattern=None):
    sw = draw(st.sampled_from([1, 2, 4]))
    ch = draw(st.sampled_from(channels))
    sr = draw(st.sampled_from(RATES))
    B = draw(st.integers(1, maxB))
    if pattern is None:
        nwin = draw(st.integers(0, maxwin))
        pat = "".join("1" if b else "0" for b in draw(st.lists(st.booleans(), min_size=nwin, max_size=nwin)))
    else:
        pat = draw(pattern)
    k = draw(st.integers(0, B - 1))
    tbit = draw(st.integers(0, 1))
    al = draw(st.integers(16, MAXV[sw] // 2 if sw > 1 else 100))
    aq = draw(st.sampled_from([0, 0, 1, 3]))
    salt = draw(st.integers(0, 2**31 - 1))
    if ch == 1 or not uc_any:
        uc = None
    else:
        uc = draw(st.sampled_from([None, "any", "mix", "avg", "average"]) | st.integers(-ch, ch - 1))
    out = {"sr": sr, "sw": sw, "ch": ch, "B": B, "pat": pat, "tail": [k, tbit],
           "al": al, "aq": aq, "salt": salt, "uc": uc}
    if draw(st.integers(0, 5)) == 0:
        out.update(thr0=True, aq=0, al=draw(st.integers(2, 60)))
    return out


@st.composite
def split_windows(draw, maxmax=8):
    """(kmin, kmax, ksil, drop, strict) in windows, accepted by construction."""
    kmax = draw(st.integers(1, maxmax))
    kmin = draw(st.integers(1, kmax))
    ksil = draw(st.integers(0, kmax - 1))
    return [kmin, kmax, ksil, draw(st.booleans()), draw(st.booleans())]


def split_durations(win, aw):
    """Mid-window durations so that C06's rounding is not in play."""
    kmin, kmax, ksil = win[:3]
    return (kmin - 0.5) * aw, (kmax + 0.5) * aw, ((ksil + 0.5) * aw if ksil else 0)


@st.composite
def audio_case(draw, maxwin=30, maxB=12, maxmax=8, shapes=False):
    """shapes=True adds, one case in eight, recordings of a kind small random inputs never reach:
    more than a hundred events, or activity that only starts after a minute / an hour (at 10 Hz
    with one-sample windows, so they stay cheap)."""
    win = draw(split_windows(maxmax))
    from .gen import pattern as tokpat

    p = [win[0], win[1], win[2], 0, 0, 0]
    shape = draw(st.sampled_from([9, 9, 9, 9, 9, 9, 9, 9, 9, 9, 9, 9, 0, 9, 9, 9, 9, 9, 9, 9, 9, 9, 9, 9, 1, 9, 9, 9, 9, 9, 9, 9, 9, 9, 9, 9, 9, 9, 9, 9, 9, 9, 9, 9, 9, 9, 9, 9])) if shapes else 99
    if shape == 0:
        unit = "1" * win[0] + "0" * (win[2] + 1)
        pat = st.just(unit * draw(st.integers(100, 140)) + "1" * win[0])
        rec = draw(recording(maxwin, 2, pattern=pat))
        rec["shape"] = "many_events"
    elif shape == 1:
        lead = draw(st.sampled_from([598, 600, 601, 599, 602, 600, 601] + ([35999, 36000] if shapes is True else [])))
        body = draw(tokpat(p, 24))
        rec = draw(recording(maxwin, 1, channels=(1, 2), pattern=st.just("0" * lead + body)))
        rec["sr"], rec["B"], rec["tail"] = 10, 1, [0, 0]
        rec["aq"] = 0
        if isinstance(rec["uc"], int):
            rec["uc"] = None
        rec["shape"] = "late_activity"
    else:
        rec = draw(recording(maxwin, maxB, pattern=tokpat(p, maxwin)))
    return {"audio": rec, "win": win}
