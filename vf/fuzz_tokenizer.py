"""atheris (libFuzzer) target for the C04 differential - thorough tier only.

bytes -> (max, min, sil, mode, init_min) via the first five bytes, the rest
-> validity bits -> the same check as vf.props.c04.check_case (tokens ==
reference greedy segmentation + the 'consequently' clauses).

  python -m vf.fuzz_tokenizer --decode FILE      print the JSON case of an input
  python -m vf.fuzz_tokenizer --seed-corpus DIR  write seed inputs from the repo's tests
  python -m vf.fuzz_tokenizer [libFuzzer flags] [corpus dirs]
"""

import json
import os
import re
import sys

from .common import REPO, Rec, Violation, import_auditok

MODES = (0, 2, 4, 6)


def decode(data):
    b = list(data[:5]) + [0] * (5 - min(len(data), 5))
    mx = 1 + b[0] % 12
    mn = 1 + b[1] % mx
    sil = -1 + b[2] % (mx + 1)
    mode = MODES[b[3] % 4]
    imin = [v for v in (0, -1, 1) if v < mx][b[4] % len([v for v in (0, -1, 1) if v < mx])]
    rest = data[5:]
    bits = "".join(format(x, "08b") for x in rest[:64])
    if rest:
        bits = bits[: len(bits) - (rest[-1] % 8)]
    return {"pat": bits, "p": [mn, mx, sil, imin, 0, mode], "kind": "obj", "deliv": ("list", "gen", "cb")[b[3] // 4 % 3]}


def encode(pat, mn, mx, sil, mode):
    head = bytes([mx - 1, mn - 1, sil + 1, MODES.index(mode), 0])
    pad = (-len(pat)) % 8
    bits = pat + "0" * pad
    body = bytes(int(bits[i: i + 8], 2) for i in range(0, len(bits), 8))
    # last byte's low 3 bits say how many bits to drop: append a trimming byte
    return head + body + bytes([8 - 8])  # extra zero byte, dropped entirely below


def seed_corpus(dirname):
    os.makedirs(dirname, exist_ok=True)
    src = open(os.path.join(REPO, "tests", "test_StreamTokenizer.py")).read()
    strings = sorted(set(re.findall(r'"([A-Za-z]{6,})"', src)))
    n = 0
    for s in strings:
        pat = "".join("1" if c.isupper() else "0" for c in s)
        for (mn, mx, sil) in ((1, 5, 0), (3, 10, 3), (2, 4, 1)):
            with open(os.path.join(dirname, f"seed{n}"), "wb") as fp:
                fp.write(encode(pat, mn, mx, sil, MODES[n % 4]))
            n += 1
    return n


def main():
    args = sys.argv[1:]
    if args and args[0] == "--decode":
        print(json.dumps(decode(open(args[1], "rb").read())))
        return 0
    if args and args[0] == "--seed-corpus":
        print(seed_corpus(args[1]))
        return 0
    try:
        import atheris
    except ImportError:
        print("ATHERIS-UNAVAILABLE")
        return 0
    with atheris.instrument_imports(include=["auditok"]):
        import_auditok()
    from .props import c04

    rec = Rec()

    def one(data):
        case = decode(data)
        c04.check_case(case, rec)  # raises Violation -> libFuzzer saves the input

    atheris.Setup([sys.argv[0]] + args, one)
    atheris.Fuzz()
    return 0


if __name__ == "__main__":
    sys.exit(main())
