"""Reference models written from the property statements (not from the code).

ref_tokens        C04 greedy segmentation (also used by C05, C06, C14)
window_count      C06 duration -> window count (1e-9 rule, exact rationals)
energy_db         C07 exact mean-square energy in dB
block_model       C10 AudioReader block sequence
fmt_duration      C15 duration formatter
"""

import math
from decimal import Decimal, getcontext
from fractions import Fraction


# ---------------------------------------------------------------- C04


def stretches(valid, max_sil):
    """Maximal stretches of valid frames whose internal gaps are <= max_sil,
    each with its extension by up to max_sil trailing invalid frames.
    -> list of (first_valid, last_valid, extended_end)."""
    ms = max(max_sil, 0)
    n = len(valid)
    out = []
    i = 0
    while i < n:
        if not valid[i]:
            i += 1
            continue
        f = last = i
        j = i + 1
        while j < n:
            if valid[j]:
                last = j
                j += 1
                continue
            g = j
            while g < n and not valid[g]:
                g += 1
            if g < n and (g - j) <= ms:
                j = g
            else:
                break
        g = last + 1
        while g < n and not valid[g]:
            g += 1
        ext = last + min(ms, g - (last + 1))
        out.append((f, last, ext))
        i = ext + 1
        # frames between ext+1 and the next valid frame are invalid anyway
    return out


def ref_tokens(valid, min_len, max_len, max_sil, strict, drop, info=None):
    """The declarative greedy segmentation of the C04 statement.
    `info`, if a set, receives labels describing which clauses were used."""
    out = []
    n = len(valid)
    lab = info.add if info is not None else (lambda _x: None)
    prev_ext = -1
    for f, last, ext in stretches(valid, max_sil):
        lab("stretch")
        if last == n - 1:
            lab("event_at_eos")
        if ext == n - 1:
            lab("stream_ends_in_stretch")
        if f - prev_ext - 1 == 1 and prev_ext >= 0 and max(max_sil, 0) >= 0:
            # exactly one more invalid frame than tolerated separates the
            # two stretches (gap == max_sil + 1)
            lab("gap_sil_plus_1")
        prev_ext = ext
        s = f
        cut_prev = False
        while s + max_len - 1 <= ext:  # full pieces
            out.append((s, s + max_len - 1))
            s += max_len
            cut_prev = True
            lab("cut")
        if s <= ext:
            if not any(valid[s : ext + 1]):
                lab("allsilence_partial_discarded")
                continue
            lab("partial")
            e = ext
            if drop:
                while not valid[e]:
                    e -= 1
                if e < ext:
                    lab("trailing_dropped")
            if (e - s + 1) >= min_len:
                out.append((s, e))
            elif not strict and cut_prev:
                out.append((s, e))
                lab("remainder_delivered")
            else:
                lab("partial_rejected")
                if cut_prev:
                    lab("remainder_rejected_strict")
    return out


# ---------------------------------------------------------------- C06


def window_count(dur, w, kind):
    """Number of analysis windows a duration means (C06 statement).
    kind: 'min' -> ceil, 'max'/'sil' -> floor; quotients within 1e-9 of an
    integer count as that integer.  Exact arithmetic on the floats passed.
    Returns (count, grey) where grey tells the quotient lies in the zone
    (1e-11 .. 1e-8 from an integer) where statement (1e-9) and a legitimate
    implementation epsilon may differ."""
    if dur == 0:
        return 0, False
    q = Fraction(dur) / Fraction(w)
    r = round(q)
    dist = abs(q - r)
    grey = Fraction(1, 10**11) < dist < Fraction(1, 10**8)
    if dist <= Fraction(1, 10**9):
        return int(r), grey
    if kind == "min":
        return math.ceil(q), grey
    return math.floor(q), grey


# ---------------------------------------------------------------- C07

getcontext().prec = 50
_LOG10 = None


def decode(data, width):
    """bytes -> list of signed little-endian ints."""
    if len(data) > 20000:
        import array
        import sys

        if sys.byteorder == "little":  # stdlib decoder for big inputs
            return array.array({1: "b", 2: "h", 4: "i"}[width], data).tolist()
    return [
        int.from_bytes(data[i : i + width], "little", signed=True)
        for i in range(0, len(data), width)
    ]


def channels_of(data, width, ch):
    s = decode(data, width)
    return [s[c::ch] for c in range(ch)]


def ms_to_db(ms):
    """10*log10(mean square) as Decimal; -200 for digital silence floor."""
    if ms <= 0:
        return Decimal(-200)
    d = (Decimal(ms.numerator) / Decimal(ms.denominator)).log10() * 10
    return max(d, Decimal(-200))


def mean_square(xs):
    """xs: list of ints (or Fractions)."""
    if xs and isinstance(xs[0], int):
        return Fraction(sum(x * x for x in xs), len(xs))
    return sum(Fraction(x) * Fraction(x) for x in xs) / len(xs)


def energy_db(data, width, ch, use_channel):
    """Exact energy in dB of a window under a channel-selection mode.
    use_channel is None/'any', 'mix'/'avg'/'average', or a valid int index
    (already known to be in range).  Single channel ignores the selection."""
    chans = channels_of(data, width, ch)
    if ch == 1:
        return ms_to_db(mean_square(chans[0]))
    if use_channel in (None, "any"):
        return max(ms_to_db(mean_square(c)) for c in chans)
    if use_channel in ("mix", "avg", "average"):
        n = len(chans[0])
        sums = [sum(t) for t in zip(*chans)]  # per-sample sum over channels; mean = sum / ch
        return ms_to_db(Fraction(sum(v * v for v in sums), ch * ch * n))
    idx = use_channel
    if idx < 0:
        idx += ch
    return ms_to_db(mean_square(chans[idx]))


# ---------------------------------------------------------------- C10


def exact_floor(x, rate):
    """floor(x*rate) on the float actually passed, with razor flag."""
    q = Fraction(x) * rate
    fl = math.floor(q)
    near = min(q - fl, fl + 1 - q)
    return fl, near <= Fraction(1, 10**9) * max(1, abs(q))


def exact_round(x, rate):
    """round-half-even(x*rate) on the float passed - what the statements write
    as round(.).  Razor flag when the exact product is within 1e-9 of a .5
    boundary *without being on it* (float noise could go either way); an exact
    tie is not ambiguous: the float product is exact too and rounds to even."""
    q = Fraction(x) * rate
    r = round(q)
    half = abs(abs(q - math.floor(q)) - Fraction(1, 2))
    return int(r), 0 < half <= Fraction(1, 10**9) * max(1, abs(q))


def block_model(nsamples, B, H, maxsamples):
    """Sequence of (start, stop) sample ranges AudioReader.read() returns."""
    V = nsamples if maxsamples is None else max(0, min(nsamples, maxsamples))
    out = []
    if H is None or H == B:
        s = 0
        while s < V:
            out.append((s, min(s + B, V)))
            s += B
        return out, V
    if V == 0:
        return out, V
    out.append((0, min(B, V)))
    k = 1
    while (k - 1) * H + B < V:
        out.append((k * H, min(k * H + B, V)))
        k += 1
    return out, V


# ---------------------------------------------------------------- C15


def whole_millis(t):
    """floor(1000*t) exactly on the float t; second value: alternative allowed
    when the exact product lies within 1e-9 (relative) below an integer."""
    q = Fraction(t) * 1000
    w = math.floor(q)
    alt = None
    if (w + 1 - q) <= Fraction(1, 10**9) * max(1, abs(q)):
        alt = w + 1
    return w, alt


def fmt_seconds3(t):
    """'%S': seconds with three decimals, round-half-even on the exact value."""
    d = Decimal(t).quantize(Decimal("0.001"), rounding="ROUND_HALF_EVEN")
    return f"{d:.3f}"
