"""python -O -m vf.optrun <ID>: explicit + regression cases (plus mod.optimized_cases() when the
module defines it) in an interpreter without assert statements; prints one OPTRUN json line."""

import importlib
import json
import sys

from . import common


def main():
    pid = sys.argv[1]
    if __debug__:
        raise SystemExit("optrun must be started with -O")
    mod = importlib.import_module(f"vf.props.{pid.lower()}")
    common.import_auditok()
    rec = common.Rec()
    if len(sys.argv) > 3 and sys.argv[2] == "--case":
        with open(sys.argv[3]) as fp:
            cases = [json.load(fp)]
    else:
        reg, exp = common.explicit_and_regression_cases(mod)
        extra = list(mod.optimized_cases()) if hasattr(mod, "optimized_cases") else []
        cases = reg + exp + extra
    common.run_cases(mod, cases, rec, stop_at_first=False)
    print("OPTRUN " + json.dumps({"evaluations": rec.evaluations,
                                  "failures": [[c, m] for c, m in rec.failures[:5]]}, default=repr))


if __name__ == "__main__":
    main()
