"""Job plumbing shared by the tokenizer properties: exhaustive chunks of short
patterns x parameter tuples, plus 16 Hypothesis shards."""

from . import gen, tok
from .common import hyp_run, run_cases


def exh_cases(n, lo, hi, M, inits):
    params = list(gen.all_params(M, inits=inits))
    for v in range(lo, hi):
        pat = format(v, f"0{n}b") if n else ""
        for k, p in enumerate(params):
            yield {"pat": pat, "p": p, "kind": tok.KINDS[(v + k) % len(tok.KINDS)],
                   "deliv": tok.DELIVS[(v // 3 + k) % 3]}


def init_grid_cases(shard, nshards):
    """The initial phase against max_length: init_min 2..6 x init_max_silence 1..4 x every max_length up
    to init_min*(init_max_silence+1)+2, on streams made of single valid frames separated by about the
    tolerated initial silence and followed by various tails."""
    k = 0
    for imin in range(2, 7):
        for isil in range(1, 5):
            for mx in range(imin + 1, imin * (isil + 1) + 3):
                for mn in sorted({1, min(2, mx), mx}):
                    for sil in sorted({0, min(isil, mx - 1)}):
                        for mode in (0, 2, 4):
                            k += 1
                            if k % nshards != shard:
                                continue
                            p = [mn, mx, sil, imin, isil, mode]
                            for g in sorted({max(isil - 1, 0), isil, isil + 1}):
                                for r in range(1, imin + 2):
                                    body = ("1" + "0" * g) * r
                                    for ti, tail in enumerate(("", "1", "11", "1" * mx, "0" * (isil + 1) + "111", "10" + "1" * mx)):
                                        yield {"pat": body + tail, "p": p, "kind": tok.KINDS[(r + ti) % len(tok.KINDS)],
                                               "deliv": tok.DELIVS[(g + ti) % 3]}


REUSE_HOWS = ("list", ["gen", 0], ["gen", 1], ["two_gens"], ["close_mid", 0, 1], ["close_mid", 1, 1], ["close_mid", 1, 2])


def reuse_cases(shard, nshards, M, Lpre, Lmain, inits=((0, 0),)):
    """Every (parameters, earlier stream, how it was left, later stream) with both streams short:
    a tokenizer that has been used before must behave like a fresh one."""
    params = list(gen.all_params(M, inits=inits))
    k = 0
    for p in params:
        for npre in range(1, Lpre + 1):
            for v in range(1 << npre):
                k += 1
                if k % nshards != shard:
                    continue
                pre = format(v, f"0{npre}b")
                for hi, how in enumerate(REUSE_HOWS):
                    for nm in range(1, Lmain + 1):
                        for w in range(1 << nm):
                            yield {"pat": format(w, f"0{nm}b"), "p": p, "pre": {"pat": pre, "how": how},
                                   "kind": tok.KINDS[(v + w) % len(tok.KINDS)],
                                   "deliv": "gen" if how[0] in ("two_gens", "close_mid") else tok.DELIVS[(w + hi) % 3]}


def reuse_jobs(tier, nshards=16):
    Lpre, Lmain, M = (5, 4, 3) if tier == "quick" else (6, 5, 4)
    return [{"name": f"exh-reuse-{i}", "kind": "exh_reuse", "shard": i, "nshards": nshards, "M": M, "Lpre": Lpre, "Lmain": Lmain}
            for i in range(nshards)]


def std_jobs(tier, seed, bounds, shards=16):
    b = bounds[tier]
    out = []
    chunk = b.get("chunk", 1 << 6 if tier == "quick" else 1 << 8)
    for n in range(0, b["L"] + 1):
        for lo in range(0, 1 << n, chunk):
            out.append({"name": f"exh-n{n}-{lo}", "kind": "exh", "n": n, "lo": lo,
                        "hi": min(1 << n, lo + chunk), "M": b["M"]})
    out.sort(key=lambda j: -j["n"])
    out = reuse_jobs(tier) + [{"name": f"init-grid-{i}", "kind": "init_grid", "shard": i, "nshards": 8} for i in range(8)] + out
    for i in range(shards):
        out.append({"name": f"hyp-{i}", "kind": "hyp", "seed": seed * 1000 + i,
                    "n": b["hyp_examples"], "maxlen": b["maxlen"], "maxmax": b["maxmax"]})
    return out


def std_run_job(mod, job, rec, inits, init="any"):
    if job["kind"] == "exh":
        run_cases(mod, exh_cases(job["n"], job["lo"], job["hi"], job["M"], inits), rec)
    elif job["kind"] == "init_grid":
        run_cases(mod, init_grid_cases(job["shard"], job["nshards"]), rec)
    elif job["kind"] == "exh_reuse":
        run_cases(mod, reuse_cases(job["shard"], job["nshards"], job["M"], job["Lpre"], job["Lmain"], inits), rec)
    elif job["kind"] == "hyp":
        hyp_run(mod, gen.tok_case(job["maxmax"], job["maxlen"], init=init), rec,
                job["seed"], job["n"])
    else:
        return False
    return True
