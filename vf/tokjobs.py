"""Job plumbing shared by the tokenizer properties: exhaustive chunks of short
patterns x parameter tuples, plus 16 Hypothesis shards."""

from . import gen, tok
from .common import hyp_run, run_cases


def exh_cases(n, lo, hi, M, inits):
    params = list(gen.all_params(M, inits=inits))
    for v in range(lo, hi):
        pat = format(v, f"0{n}b") if n else ""
        for k, p in enumerate(params):
            yield {"pat": pat, "p": p, "kind": tok.KINDS[(v + k) % len(tok.KINDS)],
                   "deliv": tok.DELIVS[(v // 3 + k) % 3]}


def std_jobs(tier, seed, bounds, shards=16):
    b = bounds[tier]
    out = []
    chunk = b.get("chunk", 1 << 6 if tier == "quick" else 1 << 8)
    for n in range(0, b["L"] + 1):
        for lo in range(0, 1 << n, chunk):
            out.append({"name": f"exh-n{n}-{lo}", "kind": "exh", "n": n, "lo": lo,
                        "hi": min(1 << n, lo + chunk), "M": b["M"]})
    out.sort(key=lambda j: -j["n"])
    for i in range(shards):
        out.append({"name": f"hyp-{i}", "kind": "hyp", "seed": seed * 1000 + i,
                    "n": b["hyp_examples"], "maxlen": b["maxlen"], "maxmax": b["maxmax"]})
    return out


def std_run_job(mod, job, rec, inits, init="any"):
    if job["kind"] == "exh":
        run_cases(mod, exh_cases(job["n"], job["lo"], job["hi"], job["M"], inits), rec)
    elif job["kind"] == "hyp":
        hyp_run(mod, gen.tok_case(job["maxmax"], job["maxlen"], init=init), rec,
                job["seed"], job["n"])
    else:
        return False
    return True
