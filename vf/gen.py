"""Hypothesis strategies shared by the tokenizer properties (C01-C04, C08, C20)
and audio synthesis shared by C05-C07, C09, C12-C15."""

from hypothesis import strategies as st

MODES = (0, 2, 4, 6)


def rarely(n):
    """True about once in n draws.  Hypothesis favours the *simplest* value of a strategy (the first
    element of sampled_from, 0 for integers) far more often than 1/n inside a composite strategy, so
    the True sits in the middle of the list."""
    return st.sampled_from([False] * (n // 2) + [True] + [False] * (n - n // 2 - 1))


@st.composite
def tok_params(draw, maxmax=8, init="any"):
    """Accepted parameter tuple, by construction (no rejection).
    init: 'any' -> all six parameters; 'default' -> init_min in {-1,0,1},
    init_max_silence arbitrary (irrelevant there)."""
    mx = draw(st.integers(1, maxmax))
    if init == "any" and maxmax >= 8 and draw(rarely(5)):
        # the initial phase and max_length meet: max_length around (init_min-1)*(init_max_silence+1)+1
        # (a candidate made of single valid frames each followed by the tolerated silence) and around
        # 2*(init_min+init_max_silence)
        imin = draw(st.integers(2, 7))
        isil = draw(st.integers(1, 4))
        mx = max(draw(st.sampled_from([(imin - 1) * (isil + 1), 2 * (imin + isil), imin + isil, imin * (isil + 1)]))
                 + draw(st.integers(-1, 2)), imin + 1, 2)
        mn = draw(st.sampled_from([1, 1, 2, imin, mx]))
        mn = min(max(mn, 1), mx)
        sil = draw(st.sampled_from([0, isil, isil - 1, -1, 1]).filter(lambda v: v < mx))
        return [mn, mx, sil, imin, isil, draw(st.sampled_from(MODES))]
    if maxmax >= 8 and draw(rarely(10)):
        mx = draw(st.integers(9, 48))  # between the small grid and the big lengths
    if maxmax >= 8 and draw(rarely(15)):
        # lengths above CPython's small-int cache, around powers of two
        mx = draw(st.one_of(st.integers(250, 300), st.sampled_from([255, 256, 257, 511, 512, 513, 1023, 1024, 1025])))
    mn = draw(st.integers(1, mx)) if mx <= 64 else draw(st.one_of(st.integers(1, 8), st.integers(1, mx), st.sampled_from([mx - 1, mx, 255, 256, 257]).filter(lambda v: 1 <= v <= mx)))
    sil = draw(st.integers(-1, mx - 1)) if mx <= 64 else draw(st.one_of(st.integers(-1, 6), st.integers(-1, mx - 1), st.sampled_from([mx - 1, 255, 256, 257]).filter(lambda v: v < mx)))
    if init == "default":
        imin = draw(st.sampled_from([v for v in (-1, 0, 1) if v < mx]))
        isil = draw(st.integers(-1, 3))
    else:
        imin = draw(st.integers(-1, mx - 1))
        isil = draw(st.integers(-1, 4))
    mode = draw(st.sampled_from(MODES))
    return [mn, mx, sil, imin, isil, mode]


def _clip(vals, lo=1, hi=400):
    return sorted({v for v in vals if lo <= v <= hi})


@st.composite
def pattern(draw, p, maxlen=64):
    """Validity pattern as a '0'/'1' string: mixture of boundary-biased
    run-length construction and i.i.d. bits."""
    mn, mx, sil, imin, isil, _mode = p
    ms = max(sil, 0)
    how = draw(st.integers(0, 9))
    if maxlen >= 64 and draw(rarely(40)):
        # a long stream (thousands of frames, hundreds of tokens): a drawn motif repeated
        motif = draw(st.text(alphabet="01", min_size=1, max_size=3 * min(mx, 12) + 6))
        total = draw(st.sampled_from([1000, 2048, 4097, 5000]))
        return (motif * (total // len(motif) + 1))[:total]
    if imin >= 2 and isil >= 1 and draw(rarely(4)):
        # initial-phase shapes: single valid frames separated by (about) the tolerated initial silence,
        # then a run of valid frames
        g = max(isil + draw(st.sampled_from([0, 0, 0, -1, 1])), 0)
        r = max(imin + draw(st.sampled_from([-1, -1, 0, -2, 1])), 1)
        body = ("1" + "0" * g) * r
        tail = draw(st.sampled_from(["", "1", "11", "1" * mx, "1" * (mx + 1), "0" * (isil + 1) + "111", "10" * 3]))
        lead = "0" * draw(st.integers(0, 2))
        return (lead + body + tail + draw(st.sampled_from(["", "0", "0" * (ms + 1) + "1"])))[: max(maxlen, len(lead + body) + mx + 2)]
    if how <= 6:
        vruns = _clip([1, 2, mn - 1, mn, mn + 1, mx - 1, mx, mx + 1, 2 * mx, 2 * mx + 1, imin, imin - 1], hi=max(400, 2 * mx + 2))
        iruns = _clip([1, 2, ms, ms + 1, ms + 2, max(isil, 0), max(isil, 0) + 1, mx, mx + ms + 1], hi=max(400, 2 * mx + 2))
        nruns = draw(st.integers(1, 10))
        valid = draw(st.booleans())
        parts = []
        total = 0
        for _ in range(nruns):
            pool = vruns if valid else iruns
            ln = draw(st.sampled_from(pool) | st.integers(1, 6))
            if total + ln > maxlen:
                ln = maxlen - total
            if ln <= 0:
                break
            parts.append(("1" if valid else "0") * ln)
            total += ln
            valid = not valid
        return "".join(parts)
    n = draw(st.integers(0, maxlen))
    if how == 7:
        dens = draw(st.sampled_from([0.2, 0.5, 0.8]))
        bits = draw(
            st.lists(st.floats(0, 1, allow_nan=False), min_size=n, max_size=n)
        )
        return "".join("1" if b < dens else "0" for b in bits)
    bits = draw(st.lists(st.booleans(), min_size=n, max_size=n))
    return "".join("1" if b else "0" for b in bits)


@st.composite
def tok_case(draw, maxmax=8, maxlen=64, init="any",
             kinds=("obj", "char", "bytes", "np", "int", "obj", "char", "bytes", "np", "int", "nparr", "emptysil", "stateful"),
             delivs=("list", "gen", "cb")):
    p = draw(tok_params(maxmax, init))
    pat = draw(pattern(p, maxlen if p[1] <= 64 else max(maxlen, 3 * p[1] + 20)))
    case = {
        "pat": pat,
        "p": p,
        "kind": draw(st.sampled_from(kinds)),
        "deliv": draw(st.sampled_from(delivs)),
    }
    if case["kind"] != "char" and draw(st.booleans()):
        case["src"] = "duck"  # a source that does not derive from DataSource
    if draw(rarely(6)):
        case["skip"] = draw(st.text(alphabet="01", min_size=1, max_size=5))  # frames read from the source beforehand
    if draw(rarely(12)):
        # positional coincidence across uses: the earlier stream ends exactly on a cut at frame k-1,
        # the later one has its first (short) activity starting exactly at frame k
        mn, mx = p[0], p[1]
        if mx <= 64:
            lead = draw(st.integers(0, 3))
            j = draw(st.integers(1, 3))
            k = lead + mx * j
            burst = draw(st.integers(1, max(mn - 1, 1)))
            case["pat"] = "0" * k + "1" * burst + "0" * draw(st.integers(0, mx + 2)) + draw(pattern(p, 12))
            case["pre"] = {"pat": "0" * lead + "1" * (mx * j), "how": draw(st.sampled_from(["list", ["gen", 9], ["two_gens"]]))}
            return case
    if draw(st.integers(0, 3)) == 0:  # the tokenizer has been used before
        case["pre"] = {
            "pat": draw(pattern(p, 24)),
            "how": draw(st.one_of(st.just("list"), st.tuples(st.just("gen"), st.integers(0, 2)).map(list),
                                  st.just(["two_gens"]),
                                  st.tuples(st.just("raise"), st.integers(0, 20), st.sampled_from(["list", "gen"])).map(list),
                                  st.tuples(st.just("close_mid"), st.integers(0, 2), st.integers(0, 2)).map(list))),
        }
    return case


def all_params(maxmax, inits=((0, 0),), modes=MODES):
    """Deterministic enumeration of accepted parameter tuples."""
    for mx in range(1, maxmax + 1):
        for mn in range(1, mx + 1):
            for sil in range(-1, mx):
                for imin, isil in inits:
                    if imin >= mx:
                        continue
                    for mode in modes:
                        yield [mn, mx, sil, imin, isil, mode]


def all_patterns(n):
    for v in range(1 << n):
        yield format(v, f"0{n}b") if n else ""
