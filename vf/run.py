"""./check <ID> [--tier quick|thorough] [--replay FILE]

exit 0  property held on everything explored (KNOWN-FINDING lines allowed)
exit 1  VIOLATION property=<id> replay=<path>
exit 2  harness error / inconclusive (never a verdict)
"""

import argparse
import glob
import importlib
import json
import os
import shutil
import sys
import tempfile
import time
import traceback


def main(argv=None):
    ap = argparse.ArgumentParser()
    ap.add_argument("prop")
    ap.add_argument("--tier", default=os.environ.get("VERIF_TIER") or "quick")
    ap.add_argument("--replay")
    ap.add_argument("--seed", type=int, default=None)
    ap.add_argument("--procs", type=int, default=None)
    args = ap.parse_args(argv)
    if args.tier not in ("quick", "thorough"):
        args.tier = "quick"
    seed = args.seed
    if seed is None:
        try:
            seed = int(os.environ.get("VERIF_SEED", "1"))
        except ValueError:
            seed = 1

    root = tempfile.mkdtemp(prefix="vfroot-")
    os.environ["VF_TMPROOT"] = root
    try:
        return _main(args, seed)
    except SystemExit:
        raise
    except Exception:  # noqa: BLE001
        traceback.print_exc()
        print(f"HARNESS-ERROR property={args.prop}")
        return 2
    finally:
        shutil.rmtree(root, ignore_errors=True)


def _main(args, seed):
    from . import common

    pid = args.prop.upper()
    mod = importlib.import_module(f"vf.props.{pid.lower()}")
    common.import_auditok()
    t0 = time.time()

    if args.replay:
        with open(args.replay) as fp:
            body = json.load(fp)
        case = body["case"] if "case" in body and "property" in body else body
        rec = common.Rec()
        try:
            common.checked_anywhere(mod, case, rec)
        except common.Violation as v:
            print(f"replay: {v.msg}")
            print(f"VIOLATION property={mod.ID} replay={args.replay}")
            return 1
        if rec.excluded_known:
            for k in rec.excluded_known:
                print(f"KNOWN-FINDING: property={mod.ID} {k}")
        print(f"replay: no violation ({args.replay})")
        return 0

    # ---- regressions + explicit members (first job) and the generated / exhaustive jobs, all in the pool
    jobs = [{"name": "explicit+regressions", "kind": "__explicit__"},
            {"name": "explicit+regressions under python -O", "kind": "__optimized__"}] + list(mod.jobs(args.tier, seed))
    stall = int(os.environ.get("VF_STALL_LIMIT", "300" if args.tier == "quick" else "3600"))
    results = common.run_jobs(mod, jobs, args.procs, stall_limit=stall)
    tot, errors, per_job = common.merge(results)
    wall = time.time() - t0

    status = 0
    # known findings: one line per listed entry
    for entry in common.known_findings():
        if entry.get("status") == "known" and entry.get("property") == mod.ID:
            n = tot.excluded_known.get(entry["id"], 0)
            print(
                f"KNOWN-FINDING: property={mod.ID} {entry['id']}: "
                f"{entry['what']} (instances excluded this run: {n})"
            )

    nviol = 0
    if tot.failures:
        # smallest failing case, re-confirmed outside Hypothesis
        cands = sorted(tot.failures, key=lambda cm: (common.case_size(cm[0]), common.canon(cm[0])))
        # (five attempts per candidate: cases that involve a real pipe or free-running threads
        # depend on timing under a broken tree, never on the unchanged one)
        for case, msg in [cm for cm in cands[:6] for _ in range(5)]:
            rec = common.Rec()
            try:
                common.checked_anywhere(mod, case, rec)
            except common.Violation as v:
                path = common.write_replay(mod, case, v.msg, args.tier, seed)
                print(f"violation: {v.msg}")
                print(f"case: {common.canon(case)[:2000]}")
                print(f"VIOLATION property={mod.ID} replay={path}")
                nviol = len(tot.failures)
                status = 1
                break
        else:
            # failed inside the search but not on plain replay: the harness
            # is not deterministic -> harness error, never a verdict
            print("HARNESS-ERROR: failure did not reproduce on replay:")
            for case, msg in cands[:3]:
                print("  ", msg, common.canon(case)[:500])
            status = 2

    missing = [c for c in getattr(mod, "MUST_HIT", []) if tot.classes.get(c, 0) == 0]
    common.write_evidence(
        mod,
        args.tier,
        seed,
        tot,
        wall,
        nviol,
        extra_cov={"jobs": [list(j) for j in sorted(per_job)]}
        | (mod.extra_coverage(args.tier) if hasattr(mod, "extra_coverage") else {}),
    )
    if errors:
        for job, err in errors:
            print(f"HARNESS-ERROR in job {job}:\n{err}")
        if status == 0:
            status = 2
    if missing and status == 0:
        print(f"HARNESS-ERROR: must-hit classes never produced: {missing}")
        status = 2
    print(
        f"{mod.ID} tier={args.tier} seed={seed} evaluations={tot.evaluations} "
        f"distinct_nontrivial={len(tot.nt)} wall={wall:.1f}s status={status}"
    )
    return status


if __name__ == "__main__":
    sys.exit(main())
