"""C13 - saved stream, joined events and per-region files are byte-exact
under every explored interleaving."""

import os
import sys

from hypothesis import strategies as st

from .. import pipeline
from ..common import Violation, hyp_run, import_auditok
from . import c12

import_auditok()
import auditok  # noqa: E402

ID = "C13"
LEVEL = "exploration"
RULE = (
    "Cases as C12 (recording x split parameters x observers x schedule) with at least one file producer: a "
    "StreamSaverWorker with cache_size_sec in {0, half a sample, half a block, one block, three blocks, larger than the "
    "stream}, an AudioEventsJoinerWorker with a silence of k, k+1/4 or k+3/4 samples, a RegionSaverWorker with a "
    "generated {id}/{start}/{end}/{duration} template (wav or raw). Oracle: saved stream parsed with stdlib wave: header "
    "== source's, frames == concatenation of the blocks the harness source handed out, and the blocks the tokenizer "
    "received (logged by a transparent proxy) are the same list; joined file == zero-silence.join(event bytes) == "
    "bytes of split_and_join_with_silence() (empty file when no event); exactly the files named by the template exist, "
    "each holding its detection. Non-trivial = >= 2 separate writeframes calls, or a cache flush before the stream "
    "ended, or >= 2 joined events."
)
MUST_HIT = ["files_still_there_after_the_workers_are_gone", "joiner_half_sample_silence", "writer_lagging_3_blocks_at_stop_marker", "cache_flush_mid_stream", "zero_events_with_joiner",
            "region_files", "raw_region_files"]
ASSUMPTIONS = c12.ASSUMPTIONS
BOUNDS = {"quick": dict(n=300, maxwin=24), "thorough": dict(n=1500, maxwin=40)}


def check_case(case, rec):
    if case.get("free_only"):
        return c12.check_free_only(case, rec)
    run = pipeline.run_pipeline(case, scheduled=True)
    try:
        c12.judge_threads(run, case)
        exp = pipeline.expected_detections(run.data, case, run.thr)
        c12.judge_observers(run, case, exp)
        c12.judge_files(run, case, exp, run.src.handed)
        classes = set()
        nt = False
        sr, sw, ch = run.src.sr, run.src.sw, run.src.ch
        if run.joiner is not None:
            # the statement's second formulation: the audio split_and_join_with_silence() returns
            B = case["audio"]["B"]
            aw = pipeline.audio.window_arg(B, sr)
            rd = None
            if aw == B / sr:  # a reader whose block duration is exactly the window used by the worker
                hop_, _m, _v = pipeline.reader_options(case)
                rd = auditok.AudioReader(run.data, block_dur=aw, sampling_rate=sr, sample_width=sw, channels=ch,
                                         **({} if hop_ is None else {"hop_dur": hop_ / sr}))
            if rd is not None:
                joined = auditok.split_and_join_with_silence(
                    rd, run.join_sil, energy_threshold=run.thr, use_channel=case["audio"].get("uc"),
                    **pipeline.split_kwargs(case))
                if getattr(run, "joiner_ext", ".wav").lower() == ".raw":
                    with open(run.joiner_path, "rb") as fp:
                        frames = fp.read()
                else:
                    _params, frames = pipeline.read_wav(run.joiner_path)
                if (b"" if joined is None else bytes(joined)) != frames:
                    raise Violation("joined file differs from split_and_join_with_silence() of the same input", case)
            if not exp:
                classes.add("zero_events_with_joiner")
            if len(exp) >= 2:
                nt = True
                if case.get("join_sil", [0, 0])[1] == 0.5:
                    classes.add("joiner_half_sample_silence")
        if case.get("saver"):
            total = len(run.src.handed)
            if len(run.wf_calls) >= 2:
                nt = True
            if any(h < total for h, _n in run.wf_calls):
                classes.add("cache_flush_mid_stream")
                nt = True
            for marker, qlen in run.saver._inbox.put_log:
                if marker and qlen >= 3:
                    classes.add("writer_lagging_3_blocks_at_stop_marker")
        if run.regsave is not None and exp:
            classes.add("region_files")
            if (case.get("ext") or "").lower() == "raw":
                classes.add("raw_region_files")
        nblocks_ = len(run.src.handed)
        nwf_ = len(getattr(run, "wf_calls", None) or [])
        cwd_ = os.getcwd()
        try:
            if case.get("relative"):
                os.chdir(run.dir)  # (where the relative names given to the workers resolve)
            c12.judge_after_release(run, case)
        finally:
            os.chdir(cwd_)
        classes.add("files_still_there_after_the_workers_are_gone")
        rec.note(case, nt, classes, out={"detections": len(exp), "blocks": nblocks_,
                                         "writeframes": nwf_})
    finally:
        pipeline.cleanup(run)


def explicit_cases():
    a = {"sr": 100, "sw": 2, "ch": 2, "B": 2, "pat": "0111011100011000", "tail": [1, 0], "al": 500, "aq": 1, "salt": 9, "uc": None}
    return [
        {"audio": a, "win": [2, 4, 1, False, False], "saver": {"cache": 0.04}, "observers": ["joiner", "regsave"],
         "join_sil": [3, 0.25], "tmpl": "r{id}_{start:.3f}", "ext": "raw", "choices": [0, 0, 2, 2, 2, 2, 2, 2, 2, 2] * 12},
        {"audio": a, "win": [2, 4, 1, False, False], "saver": None, "observers": ["joiner"], "join_sil": [2, 0.5], "choices": []},
        {"audio": a, "win": [2, 4, 1, False, False], "saver": None, "observers": ["joiner"], "join_sil": [3, 0.5], "choices": []},
        {"audio": a, "win": [2, 4, 1, False, False], "saver": {"cache": 0}, "observers": ["rec"],
         "choices": [3, 3, 3, 3, 3, 3, 1, 1] * 20},
        {"audio": dict(a, pat="000000"), "win": [1, 2, 0, False, False], "saver": {"cache": 100.0},
         "observers": ["joiner"], "join_sil": [2, 0], "choices": []},
        {"audio": a, "win": [1, 4, 1, True, False], "saver": {"cache": 100.0}, "observers": ["rec", "regsave"],
         "tmpl": "r{id}", "ext": "wav", "choices": [3] * 60 + [1] * 60},
        {"audio": a, "win": [2, 4, 1, False, False], "saver": {"cache": 0.03, "ext": ".raw"}, "observers": ["joiner"],
         "joiner_ext": ".raw", "join_sil": [1, 0], "stale_tmp": True, "choices": [0, 1, 2, 3] * 30},
        {"audio": dict(a, B=1, sr=10, ch=1, sw=1, al=60, pat="10" * 4200, tail=[0, 0]), "win": [1, 1, 0, False, False],
         "saver": {"cache": 5.0}, "observers": ["regsave", "joiner"], "tmpl": "r{id}", "ext": "raw", "join_sil": [1, 0],
         "choices": [], "free_only": True},
    ]


@st.composite
def strategy(draw, maxwin):
    c = draw(c12.strategy(maxwin))
    how = draw(st.integers(0, 3))
    B, sr = c["audio"]["B"], c["audio"]["sr"]
    if how in (0, 3) and not c["saver"]:
        c["saver"] = {"cache": draw(st.sampled_from([0, 0.5 / sr, B / sr / 2, B / sr, 3 * B / sr, 1000.0]))}
    if how in (1, 3) and "joiner" not in c["observers"]:
        c["observers"].append("joiner")
    if how == 2 and "regsave" not in c["observers"]:
        c["observers"].append("regsave")
    if c["saver"] and draw(st.booleans()):
        # writer starved: the tokenizer (last registered thread) runs in long bursts
        c["choices"] = [-1] * draw(st.integers(20, 200)) + c["choices"]
    return c


def jobs(tier, seed):
    b = BOUNDS[tier]
    return [{"name": f"hyp-{i}", "seed": seed * 1000 + i, "n": b["n"], "maxwin": b["maxwin"]} for i in range(16)]


def run_job(job, rec):
    hyp_run(sys.modules[__name__], strategy(job["maxwin"]), rec, job["seed"], job["n"])
