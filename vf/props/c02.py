"""C02 - token length bounds (max always, min except remainders) and the
constructor's accept/reject decision."""

import re
import sys

from .. import tok, tokjobs
from ..common import Violation, run_cases
from .c01 import runs

ID = "C02"
LEVEL = "exploration"
RULE = (
    "(a) Cases = validity pattern x accepted six-parameter tuple x frame kind x delivery "
    "mode (exhaustive for short patterns / small max_length, Hypothesis-generated beyond, "
    "as C01). Oracle: len(token) <= max_length; len(token) < min_length only if non-strict "
    "mode AND token.start == previous.end+1 AND len(previous) == max_length. "
    "(b) the whole integer grid of constructor arguments in 'constructor_grid': ValueError "
    "iff max<=0 or min<=0 or min>max or sil>=max or init_min>=max or mode not in {0,2,4,6}, "
    "an object otherwise. Non-trivial (a) = the stream holds a token cut at max_length or a "
    "valid run shorter than min_length; grid tuples count as evaluations, and as non-trivial "
    "when exactly one of the six reject conditions holds or none does (boundary tuples)."
)
RULE += (
    ' Exhaustive reuse part: every accepted parameter tuple with max_length <= 3 (thorough: 4) x every earlier stream of 1..5 (6) frames x how it was left (list run, generator unstarted / advanced one token and abandoned, two generators requested up front) x every later stream of 1..4 (5) frames: the used tokenizer must satisfy the property like a fresh one.'
)
MUST_HIT = ["d1_shape", "d2_shape", "short_remainder", "grid_accept", "grid_reject"]
ASSUMPTIONS = [
    "frame kind 'stateful': a validator whose k-th answer is the k-th bit of the pattern (a validator with a memory, e.g. an adaptive threshold) - meaningful only if the tokenizer consults the validator once per frame, in stream order","a token has max_length frames iff it was cut (follows from len<=max and eager cutting)"]

BOUNDS = {
    "quick": dict(L=10, M=3, hyp_examples=1200, maxlen=64, maxmax=8, grid=(-2, 5)),
    "thorough": dict(L=14, M=4, hyp_examples=25000, maxlen=300, maxmax=24, grid=(-3, 8)),
}
INITS = ((0, 0), (2, 0), (2, 1), (3, 2))
GOOD_MODES = (0, 2, 4, 6)


def d2_shape(pat, p):
    """Pattern-only label: from some valid frame, the initial phase holds
    >= max-1 frames (tolerated initial silence) before init_min valid ones."""
    _mn, mx, _sil, imin, isil, _mode = p
    if imin <= 1:
        return False
    n = len(pat)
    for i in range(n):
        if pat[i] != "1":
            continue
        cnt = srun = 0
        for j in range(i, n):
            if pat[j] == "1":
                cnt += 1
                srun = 0
                if cnt >= imin:
                    break
            else:
                srun += 1
                if srun > max(isil, 0):
                    break
            if j - i + 1 >= mx - 1 and cnt < imin:
                return True
    return False


def check_case(case, rec):
    if "grid" in case:
        return check_grid(case, rec)
    pat, p = case["pat"], case["p"]
    mn, mx, sil, _imin, _isil, mode = p
    strict = bool(mode & 2)
    _frames, toks = tok.run_case(case)
    sp = tok.spans(toks)
    classes = set()
    prev = None
    for s, e in sp:
        ln = e - s + 1
        if ln > mx:
            raise Violation(f"token ({s},{e}) has {ln} frames > max_length={mx}", case)
        if ln < mn:
            adjacent_cut = prev is not None and s == prev[1] + 1 and (prev[1] - prev[0] + 1) == mx
            if strict:
                raise Violation(f"strict mode: token ({s},{e}) shorter than min_length={mn}", case)
            if not adjacent_cut:
                raise Violation(
                    f"token ({s},{e}) shorter than min_length={mn} but not the immediate "
                    f"continuation of a cut token (previous: {prev})", case)
            classes.add("short_remainder")
        prev = (s, e)
    has_cut = any(e - s + 1 == mx for s, e in sp)
    short_run = any(len(r) < mn for r in re.findall("1+", pat))
    ms = max(sil, 0)
    for s, e in sp:
        if e - s + 1 == mx:
            rest = pat[e + 1:]
            m = re.match(r"(0+)(1+)(0|$)", rest)
            if m and len(m.group(1)) > ms and len(m.group(2)) < mn:
                classes.add("d1_shape")
    if d2_shape(pat, p):
        classes.add("d2_shape")
    rec.note(case, (has_cut or short_run) and runs(pat) >= 2, classes, out=sp)


def grid_expect_reject(mn, mx, sil, imin, mode):
    conds = [mx <= 0, mn <= 0, mn > mx, sil >= mx, imin >= mx, mode not in GOOD_MODES]
    return any(conds), sum(conds)


def check_grid(case, rec):
    mn, mx, sil, imin, isil, mode = case["grid"]
    reject, nconds = grid_expect_reject(mn, mx, sil, imin, mode)
    try:
        if (imin + isil) % 2:
            # all seven arguments in their documented order
            tk = tok.StreamTokenizer(tok.obj_valid, mn, mx, sil, imin, isil, mode)
        else:
            tk = tok.StreamTokenizer(tok.obj_valid, mn, mx, sil, init_min=imin,
                                     init_max_silence=isil, mode=mode)
        raised = None
    except ValueError as exc:
        raised = exc
        tk = None
    rec.note(case, nconds <= 1, ["grid_reject" if reject else "grid_accept"],
             out="ValueError" if raised else "accepted")
    if reject and raised is None:
        raise Violation(f"constructor accepted {case['grid']} (should raise ValueError)", case)
    if not reject and raised is not None:
        raise Violation(f"constructor rejected valid tuple {case['grid']}: {raised}", case)
    if tk is not None and not isinstance(tk, tok.StreamTokenizer):
        raise Violation("constructor did not return a StreamTokenizer", case)


def explicit_cases():
    return [
        {"pat": "1001", "p": [2, 2, 1, 0, 0, 0], "kind": "char", "deliv": "list"},
        {"pat": "10011", "p": [1, 4, 0, 3, 2, 0], "kind": "char", "deliv": "list"},
        {"pat": "000111111000", "p": [3, 4, 0, 0, 0, 0], "kind": "char", "deliv": "gen"},
        {"pat": "1111011", "p": [3, 4, 0, 0, 0, 2], "kind": "obj", "deliv": "cb"},
        {"grid": [1, 1, 0, 0, 0, 0]},
        {"grid": [1, 1, 1, 0, 0, 0]},
        # neighbouring integers beyond 2**53 (a float cannot tell them apart) and far beyond any float
        {"grid": [2**53 + 1, 2**53, 0, 0, 0, 0]}, {"grid": [2**53, 2**53 + 1, 0, 0, 0, 0]}, {"grid": [1, 2**53 + 1, 2**53, 0, 0, 0]},
        {"grid": [1, 2**53, 2**53, 0, 0, 0]}, {"grid": [1, 2**53 + 1, 0, 2**53, 0, 0]}, {"grid": [1, 2**53, 0, 2**53 + 1, 0, 0]},
        {"grid": [2**64 + 1, 2**64, 0, 0, 0, 0]}, {"grid": [1, 2**64 + 1, 2**64, 2**64, 0, 0]}, {"grid": [10**400 + 1, 10**400, 0, 0, 0, 0]},
        {"grid": [1, 10**400, 10**400 - 1, 10**400 - 1, 0, 0]},
        # the fifth and sixth positional arguments are init_min and init_max_silence, in that order
        {"grid": [1, 4, 0, 4, 0, 0]}, {"grid": [1, 4, 0, 0, 7, 0]}, {"grid": [1, 4, 0, 3, 9, 0]}, {"grid": [2, 5, 1, 5, 2, 0]},
        # tokens of tens of thousands of frames: max_length beyond 2**15 / 2**16, buffers beyond 4096 frames
        {"pat": "1" * 33000 + "011", "p": [1, 40000, 0, 0, 0, 0], "kind": "obj", "deliv": "list"},
        {"pat": "0" + "1" * 70001 + "0", "p": [2, 70000, 0, 0, 0, 0], "kind": "bytes", "deliv": "gen"},
        {"pat": "1" * 12000, "p": [1, 5000, 0, 0, 0, 0], "kind": "bytes", "deliv": "list"},
        {"pat": "1" * 9000 + "0" * 3 + "1" * 4097, "p": [1, 4097, 2, 0, 0, 4], "kind": "emptysil", "deliv": "cb"},
    ]


BIG_MODES = (255, 256, 257, 258, 260, 262, 264, 512, 1024, 65536, -256, -250, 2**31, 2**40 + 2)


def _grid_cases(lo, hi, mx_values, isils=(-1, 0, 2), modes=tuple(range(-1, 9)) + BIG_MODES):
    rng = range(lo, hi + 1)
    for mx in mx_values:
        for mn in rng:
            for sil in rng:
                for imin in rng:
                    for isil in isils:
                        for mode in modes:
                            yield {"grid": [mn, mx, sil, imin, isil, mode]}


def jobs(tier, seed):
    out = tokjobs.std_jobs(tier, seed, BOUNDS)
    lo, hi = BOUNDS[tier]["grid"]
    for mx in range(lo, hi + 1):
        out.insert(0, {"name": f"grid-max{mx}", "kind": "grid", "lo": lo, "hi": hi, "mx": mx})
    return out


def run_job(job, rec):
    mod = sys.modules[__name__]
    if job["kind"] == "grid":
        run_cases(mod, _grid_cases(job["lo"], job["hi"], [job["mx"]]), rec)
    else:
        tokjobs.std_run_job(mod, job, rec, INITS)


def extra_coverage(tier):
    b = BOUNDS[tier]
    lo, hi = b["grid"]
    k = hi - lo + 1
    return {
        "exhaustive_part": f"all patterns of length 0..{b['L']} x all accepted (min,max,sil,mode), max_length<={b['M']}, inits {list(INITS)}",
        "constructor_grid": f"min,max,sil,init_min in [{lo},{hi}] x init_max_silence in (-1,0,2) x mode in [-1,8] and {len(BIG_MODES)} large values (255..2**40) = {k**4 * 3 * (10 + len(BIG_MODES))} tuples, enumerated completely",
        "max_stream_len": b["maxlen"], "max_max_length": b["maxmax"],
    }


def optimized_cases():
    for n in range(0, 8):
        yield from tokjobs.exh_cases(n, 0, 1 << n, 3, INITS)
