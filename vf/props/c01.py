"""C01 - tokens are exact, ordered, non-overlapping slices of the stream."""

import sys

from .. import tok, tokjobs
from ..common import Violation

ID = "C01"
LEVEL = "exploration"
RULE = (
    "Cases = validity pattern x accepted (min,max,sil,init_min,init_max_silence,mode) "
    "x frame kind (unique objects / characters / bytes / the falsy-or-truthy ints 0 and 1 / objects with a numpy-bool validator) x delivery mode (list / generator / "
    "callback), a quarter of the generated cases on a tokenizer that was used before on another stream. Exhaustive part: all patterns up to length L x all accepted tuples with "
    "max_length<=M and the initial-phase settings listed in 'exhaustive_part'; generated part: "
    "Hypothesis streams (run-length construction biased to the parameter boundaries, or iid). "
    "Oracle: for each delivered (frames,start,end): 0<=start<=end<n, len(frames)==end-start+1, "
    "frames[k] IS (identity, for unique-object frames; == otherwise) stream[start+k], "
    "start_i > end_{i-1}. Non-trivial = at least one token and at least 3 runs in the pattern."
)
RULE += (
    ' Exhaustive reuse part: every accepted parameter tuple with max_length <= 3 (thorough: 4) x every earlier stream of 1..5 (6) frames x how it was left (list run, generator unstarted / advanced one token and abandoned, two generators requested up front) x every later stream of 1..4 (5) frames: the used tokenizer must satisfy the property like a fresh one.'
)
MUST_HIT = ["cut_in_silence_with_drop", "init_candidate_abandoned", "kind_obj", "kind_int", "deliv_cb", "deliv_gen", "reused_tokenizer"]
ASSUMPTIONS = [
    "frame kind 'stateful': a validator whose k-th answer is the k-th bit of the pattern (a validator with a memory, e.g. an adaptive threshold) - meaningful only if the tokenizer consults the validator once per frame, in stream order","harness sources hand out frames in stream order (vf/tok.py)"]

BOUNDS = {
    "quick": dict(L=10, M=3, hyp_examples=1200, maxlen=64, maxmax=8),
    "thorough": dict(L=14, M=4, hyp_examples=25000, maxlen=300, maxmax=24),
}
INITS = ((0, 0), (2, 0), (2, 1))


def runs(pat):
    return sum(1 for i, c in enumerate(pat) if i == 0 or pat[i - 1] != c)


def abandoned_shape(pat, p):
    """Pattern-only label: an initial-phase candidate that cannot reach
    init_min (excess initial silence or stream end) starts somewhere."""
    _mn, _mx, _sil, imin, isil, _mode = p
    if imin <= 1:
        return False
    n = len(pat)
    for i in range(n):
        if pat[i] == "1" and (i == 0 or pat[i - 1] == "0"):
            cnt = 0
            srun = 0
            for j in range(i, n):
                if pat[j] == "1":
                    cnt += 1
                    srun = 0
                    if cnt >= imin:
                        break
                else:
                    srun += 1
                    if srun > max(isil, 0):
                        return True
    return False


def check_case(case, rec):
    pat, p, kind = case["pat"], case["p"], case.get("kind", "obj")
    n = len(pat)
    frames, toks = tok.run_case(case)
    classes = {f"kind_{kind}", f"deliv_{case.get('deliv', 'list')}"}
    if case.get("pre"):
        classes.add("reused_tokenizer")
    mx, mode = p[1], p[5]
    prev_end = -1
    for t in toks:
        if not (isinstance(t, tuple) and len(t) == 3):
            raise Violation(f"token is not a (frames,start,end) triple: {t!r}", case)
        fr, s, e = t
        if not (isinstance(s, int) and isinstance(e, int)):
            raise Violation(f"non-integer bounds {s!r},{e!r}", case)
        if not (0 <= s <= e < n):
            raise Violation(f"bounds ({s},{e}) outside stream of {n} frames", case)
        if len(fr) != e - s + 1:
            raise Violation(f"token ({s},{e}) carries {len(fr)} frames", case)
        for k, f in enumerate(fr):
            want = frames[s + k]
            same = (f is want) if kind in ("obj", "np", "stateful", "nparr") else (f == want and type(f) is type(want))
            if not same:
                raise Violation(
                    f"token ({s},{e}): frame {k} is {f!r}, stream position {s + k} holds {want!r}",
                    case,
                )
        if s <= prev_end:
            raise Violation(f"token ({s},{e}) overlaps/precedes previous end {prev_end}", case)
        prev_end = e
        if mode & 4 and len(fr) == mx and pat[e] == "0":
            classes.add("cut_in_silence_with_drop")
    if abandoned_shape(pat, p):
        classes.add("init_candidate_abandoned")
    rec.note(case, bool(toks) and runs(pat) >= 3, classes, out=tok.spans(toks))


def explicit_cases():
    return [
        {"pat": "0110100110", "p": [1, 3, 1, 0, 0, 4], "kind": "obj", "deliv": "cb"},
        {"pat": "0110100110", "p": [1, 3, 2, 0, 0, 6], "kind": "obj", "deliv": "gen"},
        {"pat": "10010111", "p": [1, 4, 1, 2, 0, 0], "kind": "obj", "deliv": "list"},
        {"pat": "10011", "p": [1, 4, 0, 3, 2, 0], "kind": "char", "deliv": "list"},
        {"pat": "1101", "p": [2, 3, 1, 0, 0, 4], "kind": "bytes", "deliv": "gen"},
        {"pat": "0110", "p": [1, 4, 1, 3, 1, 0], "kind": "obj", "deliv": "list", "pre": {"pat": "0011", "how": "list"}},
        {"pat": "110", "p": [1, 2, 1, 0, 0, 0], "kind": "obj", "deliv": "list", "pre": {"pat": "110", "how": ["gen", 1]}},
        {"pat": "0110111", "p": [1, 3, 1, 0, 0, 0], "kind": "char", "deliv": "list", "skip": "101"},
        {"pat": "110011", "p": [2, 4, 0, 0, 0, 0], "kind": "obj", "deliv": "gen", "skip": "1"},
        {"pat": "1" * 33000 + "011", "p": [1, 40000, 0, 0, 0, 0], "kind": "obj", "deliv": "list"},
        {"pat": "0" + "1" * 70001 + "0" + "1" * 5, "p": [2, 70000, 0, 0, 0, 0], "kind": "bytes", "deliv": "gen"},
        {"pat": ("1" * 100 + "0") * 3 + "1" * 30, "p": [1, 200, 0, 0, 0, 0], "kind": "char", "deliv": "list"},
        {"pat": ("1" * 40 + "00") * 4, "p": [3, 130, 1, 0, 0, 0], "kind": "obj", "deliv": "cb"},
    ]


def jobs(tier, seed):
    return tokjobs.std_jobs(tier, seed, BOUNDS)


def run_job(job, rec):
    tokjobs.std_run_job(sys.modules[__name__], job, rec, INITS)


def extra_coverage(tier):
    b = BOUNDS[tier]
    return {
        "exhaustive_part": f"all patterns of length 0..{b['L']} x all accepted (min,max,sil,mode) with max_length<={b['M']} x (init_min,init_max_silence) in {list(INITS)}",
        "max_stream_len": b["maxlen"], "max_max_length": b["maxmax"],
    }


def optimized_cases():
    for n in range(0, 8):
        yield from tokjobs.exh_cases(n, 0, 1 << n, 3, INITS)
