"""C18 - save/load round trip, load(skip,max_read) == slicing, numpy export."""

import os
import sys
import wave
from pathlib import Path

from hypothesis import strategies as st

from ..common import lib_guard, HarnessError, Violation, hyp_run, import_auditok, tmpdir
from ..gen import rarely
from ..oracles import decode, exact_round
from .c10 import content

import_auditok()
import auditok  # noqa: E402
from auditok.io import from_file, to_file  # noqa: E402

ID = "C18"
LEVEL = "exploration"
RULE = (
    "Cases = audio of 0..200 samples (one case in forty: 65537..70000 samples, so that skip can lie beyond 2**16 samples) with distinct content x width 1/2/4 x 1-5 channels x rate x format (wav/raw "
    "chosen by extension, or explicit audio_format incl. 'wave', upper and mixed case such as 'WAVE'/'Wave') x writer (to_file, region.save with "
    "str or Path name) x reader (load, AudioRegion.load, from_file eager, from_file lazy, load with large_file) x "
    "file-name template with {start}/{end}/{duration} and format specs x exists_ok on existing/fresh names x "
    "skip/max_read as k/rate, between samples, 0, beyond the end. Oracle: bytes identical after the trip; wav header "
    "(read back with stdlib wave and through auditok) == (rate,width,channels); returned name == template filled "
    "with start, start+N/rate, N/rate computed by the harness; exists_ok=False on an existing file -> FileExistsError "
    "and the file is untouched; load(x,skip,max_read) == full[round(s*rate) : round(s*rate)+round(m*rate)] (exact "
    "rationals, razor); numpy() has shape (channels, samples) and [c][i] == signed little-endian value. "
    "Non-trivial = (width != 2 or >= 2 channels) and >= 1 sample."
)
MUST_HIT = ["skip_between_samples", "empty_slice", "lazy_reader", "wav_sw1", "wav_sw4", "placeholder_name",
            "exists_refused", "numpy_multichannel", "to_file_byteslike", "skip_beyond_65536_samples", "explicit_format", "to_file_typed_array", "more_than_1MiB", "same_path_rewritten",
            "numpy_export_modified_then_exported_again", "raw_content_starting_with_a_wav_header", "snapshot_of_16MiB_or_more", "dot_in_a_directory_name",
            "relative_path_with_dots", "both_names_short_first", "placeholder_in_a_directory_name"]
ASSUMPTIONS = ["files are re-read with stdlib wave/open to judge the writer independently of the reader"]
BOUNDS = {"quick": dict(n=500, maxN=200), "thorough": dict(n=6000, maxN=1500)}
_ctr = [0]


def other_filesystem_dir():
    """a writable directory on another filesystem than the system's temporary directory, if there is one"""
    import tempfile

    for cand in ("/dev/shm",):
        try:
            if os.path.isdir(cand) and os.access(cand, os.W_OK) and os.stat(cand).st_dev != os.stat(tempfile.gettempdir()).st_dev:
                return cand
        except OSError:
            pass
    return None


def wav_header(nbytes, sr, sw, ch):
    import struct

    return (b"RIFF" + struct.pack("<I", 36 + nbytes) + b"WAVEfmt " + struct.pack("<IHHIIH", 16, 1, ch, sr, sr * sw * ch, sw * ch)
            + struct.pack("<H", 8 * sw) + b"data" + struct.pack("<I", nbytes))


def check_snapshot(case, rec):
    """What has been loaded eagerly is a snapshot: overwriting the file afterwards (in place, same
    size) changes neither the region nor the source obtained before."""
    sr, sw, ch, N = case["sr"], case["sw"], case["ch"], case["N"]
    bps = sw * ch
    data = content(N, bps, case["salt"])
    other = bytes(255 - b for b in data[:4099]) * (len(data) // 4099 + 1)
    other = other[: len(data)]
    _ctr[0] += 1
    path = os.path.join(tmpdir(), f"c18_snap_{os.getpid()}_{_ctr[0]}.raw")
    try:
        with open(path, "wb") as fp:
            fp.write(data)
        with lib_guard(lambda: case):
            src = from_file(path, sampling_rate=sr, sample_width=sw, channels=ch)
            reg = auditok.load(path, sampling_rate=sr, sample_width=sw, channels=ch)
        with open(path, "r+b") as fp:  # same file, same size, other audio
            fp.write(other)
        with lib_guard(lambda: case):
            src.open()
            got = src.read(N + 1) or b""
            src.close()
            got_reg = bytes(reg)
        if got != data:
            raise Violation(f"an eagerly loaded source of {len(data)} bytes changed when the file was overwritten afterwards", case)
        if got_reg != data:
            raise Violation(f"a loaded region of {len(data)} bytes changed when the file was overwritten afterwards", case)
    finally:
        try:
            os.remove(path)
        except OSError:
            pass
    rec.note(case, True, {"eager_load_is_a_snapshot"} | ({"snapshot_of_16MiB_or_more"} if len(data) >= 2**24 else set()),
             out={"bytes": len(data)})


def check_case(case, rec):
    if case.get("snapshot"):
        return check_snapshot(case, rec)
    sr, sw, ch, N = case["sr"], case["sw"], case["ch"], case["N"]
    bps = sw * ch
    data = content(N, bps, case["salt"])
    classes = set()
    if case.get("riff_prefix") and case["fmt"] == "raw" and len(data) >= 12:
        # raw audio that happens to start like a wav file (here: a complete header for another format)
        hdr = wav_header(max(len(data) - 44, 0), sr + 1, {1: 2, 2: 4, 4: 1}[sw], ch + 1)
        data = hdr[: len(data)] + data[len(hdr):]
        classes.add("raw_content_starting_with_a_wav_header")
    _ctr[0] += 1
    base_dir = tmpdir()
    if case.get("other_fs") and other_filesystem_dir():
        base_dir = other_filesystem_dir()
        classes.add("directory_on_another_filesystem_than_tmp")
    dname = f"c18_{os.getpid()}_{_ctr[0]}"
    if case.get("dotted_dir"):
        # a dot in a directory of the path is not an extension of the file
        dname = f"session.2024-05-17.{os.getpid()}.{_ctr[0]}"
        classes.add("dot_in_a_directory_name")
    d = os.path.join(base_dir, dname)
    os.makedirs(d, exist_ok=True)
    cwd0 = None
    if case.get("relative_dot"):
        cwd0 = os.getcwd()
        os.chdir(d)
        d_arg = "." if case["relative_dot"] == 1 else os.path.join("..", dname)
        classes.add("relative_path_with_dots")
    else:
        d_arg = d
    fmt = case["fmt"]
    how = case["fmt_how"]
    ext = {"ext": "." + fmt, "ext_upper": "." + fmt.upper(), "explicit": ".bin", "explicit_wave": ".xyz",
           "explicit_upper": "", "explicit_mixed": ".dat", "noext": ""}[how]
    if how == "noext" and fmt != "raw":
        raise HarnessError("noext means raw")
    mixed = case.get("mixed", "WAVE") if fmt == "wav" else "Raw"
    audio_format = {"ext": None, "ext_upper": None, "explicit": fmt, "explicit_wave": "wave" if fmt == "wav" else "raw",
                    "explicit_upper": fmt.upper(), "explicit_mixed": mixed, "noext": None}[how]
    writer = case["writer"]
    start = case.get("start")
    # a filled-in template contains dots; without an extension or explicit
    # format that would (legitimately) be read as the extension -> no template there
    tmpl = case.get("tmpl") if (writer == "save_str" and start is not None and how != "noext") else None
    stem = tmpl if tmpl else "file"
    sub_t = case.get("tmpl_dir") if tmpl else None
    name_t = os.path.join(d_arg, sub_t, stem + ext) if sub_t else os.path.join(d_arg, stem + ext)
    dur = N / sr
    expected_name = name_t.format(start=start, end=(start + dur) if start is not None else None, duration=dur) if writer == "save_str" else name_t
    if tmpl:
        classes.add("placeholder_name")
    if sub_t:
        # a placeholder in a directory of the path: the (already existing) directory it names is meant
        os.makedirs(os.path.dirname(expected_name), exist_ok=True)
        classes.add("placeholder_in_a_directory_name")
    try:
        region = auditok.AudioRegion(data, sr, sw, ch, start=start) if start is not None else auditok.AudioRegion(data, sr, sw, ch)
        # ---- exists_ok
        pre = case.get("pre_existing", False)
        exists_ok = case.get("exists_ok", True)
        if pre:
            with open(expected_name, "wb") as fp:
                fp.write(b"SENTINEL")
        if writer == "to_file":
            dk = case.get("data_kind", "bytes")  # to_file documents bytes-like input
            if dk in ("array", "numpy"):
                # documented inputs: array.array / numpy.ndarray with items of the sample width
                import array as _array

                import numpy as _np

                code = {1: "b", 2: "h", 4: "i"}[sw]
                payload = _array.array(code, data) if dk == "array" else _np.frombuffer(data, dtype={1: "<i1", 2: "<i2", 4: "<i4"}[sw])
                classes.add("to_file_typed_array")
            else:
                payload = {"bytes": data, "bytearray": bytearray(data), "memoryview": memoryview(data)}[dk]
            if dk != "bytes":
                classes.add("to_file_byteslike")
            if case.get("both_names"):
                # both spellings given with different values: the long name wins, whatever the order
                wrong = dict(sr=sr * 2 + 1, sw={1: 2, 2: 4, 4: 1}[sw], ch=ch + 1)
                right = dict(sampling_rate=sr, sample_width=sw, channels=ch)
                pkw = {**wrong, **right} if case["both_names"] == "short_first" else {**right, **wrong}
                classes.add("both_names_" + case["both_names"])
            else:
                pkw = dict(sampling_rate=sr, sample_width=sw, channels=ch)
            to_file(payload, name_t, audio_format, **pkw)
            ret = name_t
        else:
            arg = Path(name_t) if writer == "save_path" else name_t
            try:
                ret = region.save(arg, audio_format, exists_ok=exists_ok)
            except FileExistsError:
                if pre and not exists_ok:
                    with open(expected_name, "rb") as fp:
                        if fp.read() != b"SENTINEL":
                            raise Violation("exists_ok=False: existing file was modified", case)
                    rec.note(case, N > 0 and (sw != 2 or ch > 1), classes | {"exists_refused"}, out="FileExistsError")
                    return
                raise Violation("FileExistsError although the file did not exist or exists_ok=True", case)
            if pre and not exists_ok:
                raise Violation("exists_ok=False overwrote an existing file", case)
            # (a pathlib.Path spells "./file" as "file": names are compared up to that normalisation)
            if str(ret) != expected_name and not (writer == "save_path" and os.path.normpath(str(ret)) == os.path.normpath(expected_name)):
                raise Violation(f"save returned {str(ret)!r}, expected {expected_name!r}", case)
        path = expected_name
        if not os.path.exists(path):
            raise Violation(f"no file at {path!r} after {writer}", case)
        # ---- judge the writer with the stdlib
        if fmt == "wav":
            with wave.open(path, "rb") as fp:
                hdr = (fp.getframerate(), fp.getsampwidth(), fp.getnchannels())
                frames = fp.readframes(fp.getnframes())
            if hdr != (sr, sw, ch):
                raise Violation(f"wav header {hdr} != {(sr, sw, ch)}", case)
            if sw in (1, 4):
                classes.add(f"wav_sw{sw}")
        else:
            with open(path, "rb") as fp:
                frames = fp.read()
        if frames != data:
            raise Violation(f"file holds {len(frames)} bytes, differs from the {len(data)} written", case)
        # ---- read back through auditok
        reader = case["reader"]
        rkw = {}
        if how in ("explicit", "explicit_wave", "explicit_upper", "explicit_mixed"):
            classes.add("explicit_format")
            rkw["audio_format"] = audio_format
        elif how == "noext":
            rkw["audio_format"] = "raw"
        if fmt == "raw":
            if case.get("both_names"):
                wrong = dict(sr=sr * 2 + 1, sw={1: 2, 2: 4, 4: 1}[sw], ch=ch + 1)
                right = dict(sampling_rate=sr, sample_width=sw, channels=ch)
                rkw.update({**wrong, **right} if case["both_names"] == "short_first" else {**right, **wrong})
                classes.add("both_names_" + case["both_names"])
            else:
                rkw.update(sampling_rate=sr, sample_width=sw, channels=ch)
        lazy = reader in ("from_file_lazy", "load_lazy")
        if lazy:
            rkw["large_file"] = True
            classes.add("lazy_reader")
        # skip / max_read (load only)
        skip = mr = None
        a, b = 0, N
        if reader in ("load", "AudioRegion.load", "load_lazy"):
            if case.get("skip") is not None:
                k, f = case["skip"]
                for ff in (f, 0):
                    skip = (k + ff) / sr
                    a, razor = exact_round(skip, sr)
                    if not razor:
                        break
                if ff:
                    classes.add("skip_between_samples")
            if case.get("mr") is not None:
                k, f = case["mr"]
                for ff in (f, 0):
                    mr = (k + ff) / sr
                    m, razor = exact_round(mr, sr)
                    if not razor:
                        break
                b = a + m
        want = data[min(a, N) * bps: max(min(b, N), 0) * bps] if b >= a else b""
        arg = Path(path) if case.get("path_obj") else path
        if reader in ("from_file_eager", "from_file_lazy"):
            src = from_file(arg, **rkw)
            src.open()
            got = src.read(N + 5) or b""
            more = src.read(1)
            src.close()
            params = (src.sampling_rate, src.sample_width, src.channels)
            if more is not None:
                raise Violation("source still has data after the whole file was read", case)
        else:
            lkw = dict(rkw)
            if skip is not None:
                lkw["skip"] = skip
            if mr is not None:
                lkw["max_read"] = mr
            fn = auditok.load if reader in ("load", "load_lazy") else auditok.AudioRegion.load
            reg = fn(arg, **lkw)
            if not isinstance(reg, auditok.AudioRegion):
                raise Violation(f"load returned {type(reg).__name__}", case)
            got = bytes(reg)
            params = (reg.sr, reg.sw, reg.ch)
            if not want:
                classes.add("empty_slice")
        if got != want:
            raise Violation(
                f"{reader}(skip={skip!r}, max_read={mr!r}) returned {len(got) // bps} samples"
                f"{' with different content' if len(got) == len(want) else ''}, expected samples [{a},{b}) of {N}", case)
        if params != (sr, sw, ch):
            raise Violation(f"audio parameters after {reader}: {params} != {(sr, sw, ch)}", case)
        # ---- the same path written again with other audio of the same byte size, read lazily again
        if case.get("rewrite") and fmt == "wav" and N and len(data) % 4 == 0:
            fmt2 = [(sr + 1, 4, 1), (sr * 2, 2, 2), (max(sr // 2, 1), 1, 4), (sr, 2, 2)][case["rewrite"] % 4]
            if fmt2 != (sr, sw, ch):
                data2 = data[::-1]
                with wave.open(path, "wb") as fp:
                    fp.setframerate(fmt2[0])
                    fp.setsampwidth(fmt2[1])
                    fp.setnchannels(fmt2[2])
                    fp.writeframes(data2)
                for lazy2 in (True, False):
                    kw2 = {"audio_format": audio_format} if audio_format and how.startswith("explicit") else {}
                    src2 = from_file(path, large_file=lazy2, **kw2)
                    src2.open()
                    got2 = src2.read(len(data2)) or b""
                    src2.close()
                    p2 = (src2.sampling_rate, src2.sample_width, src2.channels)
                    if p2 != fmt2 or got2 != data2:
                        raise Violation(
                            f"file rewritten in place as {fmt2} ({'lazy' if lazy2 else 'eager'} read): parameters {p2}, "
                            f"{len(got2)} bytes read of {len(data2)}", case)
                classes.add("same_path_rewritten")
        # ---- numpy export
        arr = region.numpy()
        if tuple(arr.shape) != (ch, N):
            raise Violation(f"numpy() shape {tuple(arr.shape)} != {(ch, N)}", case)
        if N <= 5000:
            vals = decode(data, sw)
        else:
            import array as _array  # independent (stdlib) decoder for big inputs; little-endian host asserted below

            if sys.byteorder != "little":
                raise HarnessError("big-endian host")
            vals = _array.array({1: "b", 2: "h", 4: "i"}[sw], data).tolist()
        for c in range(ch):
            row = arr[c].tolist()
            if row != [float(v) for v in vals[c::ch]]:
                raise Violation(f"numpy()[{c}] differs from the signed little-endian samples of channel {c}", case)
        if ch > 1 and N:
            classes.add("numpy_multichannel")
        if N and N <= 5000:
            # an export the caller scribbles on must not change what the (immutable) region exports next
            try:
                arr[...] = 0
            except (ValueError, TypeError):
                pass  # read-only export: fine too
            again = region.numpy()
            for c in range(ch):
                if again[c].tolist() != [float(v) for v in vals[c::ch]]:
                    raise Violation("numpy() after the caller modified an earlier export no longer holds the sample values", case)
            if bytes(region) != data:
                raise Violation("modifying a numpy() export changed the region's bytes", case)
            classes.add("numpy_export_modified_then_exported_again")
        if N > 65536 and skip is not None and a > 65536:
            classes.add("skip_beyond_65536_samples")
        if len(data) > 2**20:
            classes.add("more_than_1MiB")
        rec.note(case, N > 0 and (sw != 2 or ch > 1), classes, out={"file": os.path.basename(path), "read": len(got) // bps})
    finally:
        if cwd0 is not None:
            os.chdir(cwd0)
        import shutil

        for fn_ in os.listdir(d):
            if os.path.isdir(os.path.join(d, fn_)):
                shutil.rmtree(os.path.join(d, fn_), ignore_errors=True)
        for fn_ in os.listdir(d):
            try:
                os.remove(os.path.join(d, fn_))
            except OSError:
                pass
        try:
            os.rmdir(d)
        except OSError:
            pass


def explicit_cases():
    base = dict(sr=100, sw=1, ch=2, N=30, salt=2, fmt="wav", fmt_how="ext", writer="save_str", reader="load",
                start=1.5, tmpl="ev_{start:.3f}-{end:.3f}_{duration}", skip=[3, 0.25], mr=[10, 0.75])
    return [
        base,
        dict(base, sw=4, reader="load_lazy", skip=[40, 0], mr=None),
        dict(base, sw=2, ch=2, reader="from_file_lazy", rewrite=1, tmpl=None, skip=None, mr=None),
        dict(base, sw=2, ch=2, reader="load_lazy", rewrite=3, tmpl=None, skip=None, mr=None),
        dict(base, sw=4, fmt="raw", reader="AudioRegion.load", skip=None, mr=[0, 0]),
        dict(base, pre_existing=True, exists_ok=False),
        dict(base, writer="save_path", pre_existing=True, exists_ok=False, tmpl=None),
        dict(base, N=0, reader="load", skip=None, mr=None),
        dict(base, fmt_how="explicit_wave", writer="to_file", reader="from_file_lazy", data_kind="memoryview"),
        dict(base, fmt="raw", fmt_how="noext", writer="save_str", reader="from_file_eager", tmpl=None, sw=2, ch=5),
        dict(base, fmt_how="explicit_mixed", mixed="WAVE", writer="to_file", reader="load", skip=None, mr=None),
        dict(base, fmt_how="explicit_mixed", mixed="Wave", reader="from_file_lazy", tmpl=None),
        dict(base, N=66000, sw=2, ch=2, sr=16000, skip=[65600, 0], mr=[100, 0], tmpl=None),
        dict(base, N=300000, sw=2, ch=2, sr=16000, fmt="raw", writer="to_file", data_kind="array", reader="from_file_lazy", skip=None, mr=None, tmpl=None),
        dict(base, N=300000, sw=4, ch=1, sr=16000, fmt="raw", writer="to_file", data_kind="numpy", reader="load", skip=[299990, 0], mr=None, tmpl=None),
        dict(base, N=40, sw=2, ch=2, fmt="wav", writer="to_file", data_kind="array", reader="load", skip=None, mr=None, tmpl=None),
        dict(base, N=66000, sw=2, ch=1, sr=8000, fmt="raw", reader="load_lazy", skip=[65999, 0.25], mr=None, tmpl=None),
        dict(base, N=9000, sw=2, ch=2, sr=16000, fmt="raw", reader="load_lazy", skip=[5000, 0], mr=[300, 0], tmpl=None),
        dict(base, N=9000, sw=1, ch=3, sr=8000, fmt="raw", reader="load_lazy", skip=[4097, 0], mr=None, tmpl=None),
        dict(base, N=9000, sw=4, ch=2, sr=8000, fmt="wav", reader="load_lazy", skip=[8190, 0.5], mr=None, tmpl=None),
        dict(base, tmpl_dir="event_{start:.2f}", tmpl="audio_{duration}"),
        dict(base, tmpl_dir="d{end}", tmpl="x", fmt="raw", reader="from_file_eager"),
        dict(base, fmt="raw", riff_prefix=True, N=40, tmpl=None, skip=None, mr=None),
        dict(base, fmt="raw", riff_prefix=True, N=6, sw=2, ch=1, reader="from_file_eager", tmpl=None),
        dict(base, fmt="raw", riff_prefix=True, N=200, sw=2, ch=2, reader="from_file_lazy", tmpl=None),
        dict(base, other_fs=True),
        dict(base, fmt="raw", fmt_how="noext", dotted_dir=True, tmpl=None, writer="to_file", reader="from_file_eager"),
        dict(base, fmt="raw", fmt_how="noext", dotted_dir=True, tmpl=None, writer="save_str", reader="load", skip=None, mr=None),
        dict(base, fmt="raw", fmt_how="noext", relative_dot=1, tmpl=None, writer="save_path", reader="load_lazy", skip=None, mr=None),
        dict(base, fmt="raw", fmt_how="noext", relative_dot=2, tmpl=None, writer="to_file", reader="from_file_lazy"),
        dict(base, fmt="wav", fmt_how="ext", dotted_dir=True, relative_dot=2, tmpl=None),
        dict(base, writer="to_file", both_names="short_first", tmpl=None), dict(base, writer="to_file", both_names="long_first", tmpl=None),
        dict(base, fmt="raw", writer="to_file", both_names="short_first", reader="load", tmpl=None),
        dict(base, fmt="raw", writer="save_str", both_names="short_first", reader="from_file_lazy", tmpl=None),
        dict(base, other_fs=True, fmt="raw", writer="to_file", reader="from_file_lazy", tmpl=None),
        dict(base, snapshot=True, N=3000),
        dict(base, snapshot=True, N=(1 << 20) + 77, sw=2, ch=1),
        dict(base, snapshot=True, N=(1 << 23) + 1024, sw=2, ch=1),   # 16 MiB + 2 KiB
        dict(base, snapshot=True, N=(1 << 24) + 5, sw=2, ch=2),      # 64 MiB
    ]


TMPL = st.lists(st.sampled_from(["a", "ev", "_", "-", "{start}", "{end}", "{duration}", "{start:.3f}", "{end:.2f}",
                                 "{duration:.4f}", "{start:08.3f}"]), min_size=1, max_size=5).map("".join)


@st.composite
def strategy(draw, maxN):
    sr = draw(st.sampled_from([8, 10, 100, 1000, 8000, 16000, 44100]))
    sw = draw(st.sampled_from([1, 2, 4]))
    ch = draw(st.integers(1, 5))
    N = draw(st.one_of(st.integers(0, 3), st.integers(0, maxN)))
    big = draw(rarely(40))
    if big:
        # more than 2**16 samples: skip / max_read far into the file; now and then more than a MiB of data
        N = draw(st.sampled_from([65535, 65536, 65537, 70000, 66000, 300000]))
        ch = min(ch, 2)
    fmt = draw(st.sampled_from(["wav", "raw"]))
    hows = ["ext", "ext_upper", "explicit", "explicit_wave", "explicit_upper", "explicit_mixed"] + (["noext"] if fmt == "raw" else [])
    case = dict(sr=sr, sw=sw, ch=ch, N=N, salt=draw(st.integers(0, 10**6)), fmt=fmt,
                fmt_how=draw(st.sampled_from(hows)),
                writer=draw(st.sampled_from(["to_file", "save_str", "save_path"])),
                reader=draw(st.sampled_from(["load", "AudioRegion.load", "from_file_eager", "from_file_lazy", "load_lazy", "load"])),
                start=draw(st.one_of(st.none(), st.floats(0, 1000, allow_nan=False))),
                tmpl=draw(st.one_of(st.none(), TMPL)),
                pre_existing=draw(st.booleans()) and draw(st.booleans()),
                exists_ok=draw(st.booleans()),
                path_obj=draw(st.booleans()),
                data_kind=draw(st.sampled_from(["bytes", "bytes", "bytearray", "memoryview", "array", "numpy"])),
                mixed=draw(st.sampled_from(["WAVE", "Wave", "Wav", "wAVE"])),
                rewrite=draw(st.integers(0, 7)),
                skip=draw(st.one_of(st.none(), st.tuples(st.integers(0, N + 4), st.sampled_from([0, 0.25, 0.5, 0.75])).map(list),
                                 st.tuples(st.integers(max(N - 4000, 0), N + 4), st.sampled_from([0, 0.25])).map(list))),
                mr=draw(st.one_of(st.none(), st.tuples(st.integers(0, N + 4), st.sampled_from([0, 0.25, 0.5, 0.75])).map(list))))
    case["riff_prefix"] = fmt == "raw" and draw(rarely(5))
    case["other_fs"] = draw(rarely(5))
    case["dotted_dir"] = draw(rarely(4))
    if draw(rarely(6)):
        case["tmpl_dir"] = draw(st.sampled_from(["ev_{start:.2f}", "d{end}", "{duration}s", "x_{start}_{end:.1f}"]))
    if big and N >= 9000 and fmt == "raw" and draw(st.booleans()):
        case["reader"] = "load_lazy"
        case["skip"] = [draw(st.sampled_from([4097, 5000, 8192, 8193])), 0]
    case["relative_dot"] = draw(st.sampled_from([0, 0, 0, 0, 1, 2])) if not case["other_fs"] else 0
    case["both_names"] = draw(st.sampled_from([None, None, None, "short_first", "long_first"]))
    if draw(rarely(25)):
        case = dict(case, snapshot=True, N=draw(st.sampled_from([N, 5000, 70000, 300000])))
    return case


def jobs(tier, seed):
    b = BOUNDS[tier]
    return [{"name": f"hyp-{i}", "seed": seed * 1000 + i, "n": b["n"], "maxN": b["maxN"]} for i in range(16)]


def run_job(job, rec):
    hyp_run(sys.modules[__name__], strategy(job["maxN"]), rec, job["seed"], job["n"])
