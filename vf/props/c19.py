"""C19 - a recorder returns exactly what was read and replays it identically
(rule-based state machine over read / rewind / data histories)."""

import os
import sys

from hypothesis import strategies as st
from hypothesis.stateful import RuleBasedStateMachine, initialize, rule

from ..common import HarnessError, Violation, hyp_run_machine, import_auditok, lib_guard
from ..gen import rarely
from ..oracles import block_model
from . import c10

import_auditok()
import auditok  # noqa: E402

ID = "C19"
LEVEL = "exploration"
RULE = (
    "Histories = Hypothesis rule-based state machine: a configuration (source bytes or lazy raw/wav file of 0..50 "
    "samples, format, block B, hop None/1..B, max_read none/k samples, built as AudioReader(record=True) or "
    "Recorder, or a NON-recording reader) followed by up to 40 steps drawn from {read, rewind, data}. Model: samples "
    "consumed from the source in the first pass = min(visible, B+(k-1)*hop) after k reads; before the first rewind "
    "`data` must raise RuntimeError; after it `data` == that prefix of the visible audio, for ever; reads after a "
    "rewind replay the C10 block model over `data`; a non-recording reader raises AttributeError for data and rewind. "
    "Each step is compared with the model. Non-trivial = a rewind after a partial read (0<k<all) or two rewinds, "
    "with overlap or max_read active."
)
MUST_HIT = ["blocks_with_equal_crc32", "pause_longer_than_max_read_plus_a_second", "thousands_of_reads", "source_already_partly_consumed", "rewind_after_zero_reads", "rewind_twice_in_a_row", "overlap_maxread_partial", "non_recording",
            "data_before_rewind", "replay_read"]
ASSUMPTIONS = ["block model of C10"]
BOUNDS = {"quick": dict(n=400, steps=30), "thorough": dict(n=3000, steps=40)}


class Interp:
    """Executes a history against the real reader and the model."""

    def __init__(self, cfg):
        self.cfg = cfg
        self.ops = []
        self.classes = set()
        sr, sw, ch, N = cfg["sr"], cfg["sw"], cfg["ch"], cfg["N"]
        self.bps = sw * ch
        self.data = c10.content(N, self.bps, cfg["salt"])
        if cfg.get("crc"):
            # blocks of 16 bytes taken from two different contents that share length and CRC-32
            from .c07 import CRC_PAIR

            a, b = (bytes.fromhex(x) for x in CRC_PAIR)
            unit = a + b + b + a + b
            self.data = (unit * (len(self.data) // len(unit) + 1))[: len(self.data)]
            self.classes.add("blocks_with_equal_crc32")
        inp, kw, self.paths = c10.make_input(cfg, self.data)
        mr, limit = c10.resolve_max_read(cfg)
        bd, hd = c10.durations(cfg)
        args = dict(block_dur=bd)
        if hd is not None:
            args["hop_dur"] = hd
        if mr is not None:
            args["max_read"] = mr
        with lib_guard(self.case):
            with c10.stdin_as(kw.pop("_stdin", None)):
                if cfg["how"] == "Recorder":
                    self.reader = auditok.Recorder(inp, **args, **kw)
                else:
                    self.reader = auditok.AudioReader(inp, record=cfg["how"] == "record", **args, **kw)
            self.B, self.H = c10.sizes(cfg, self.reader, self.case())
            self.reader.open()
        self.skip = self.H == 0
        if cfg.get("prepos") and cfg["kind"] == "buffer":
            self.classes.add("source_already_partly_consumed")
        self.recording = cfg["how"] != "plain"
        V = N if limit is None else max(0, min(N, limit))
        self.V = V
        self.first_spans, _ = block_model(N, self.B, self.H, limit)
        self.k = 0  # reads made in the current pass
        self.rewound = False
        self.recorded = None  # bytes after first rewind
        self.spans = self.first_spans
        self.src = self.data
        self.nrewinds = 0
        self.partial_rewind = False
        self.last_op = None

    def case(self):
        return {"cfg": self.cfg, "ops": list(self.ops)}

    def close(self):
        try:
            self.reader.close()
        except Exception:  # noqa: BLE001
            pass
        c10.cleanup(self.paths)

    def consumed(self):
        if self.k == 0:
            return 0
        hop = self.B if self.H is None else self.H
        return min(self.V, self.B + (self.k - 1) * hop)

    def apply(self, op):
        if self.skip:
            return
        self.ops.append(op)
        case = self.case()
        if isinstance(op, list) and op[0] == "pause":
            # the consumer is slow: real time passes between two operations
            import time

            time.sleep(op[1])
            self.classes.add("pause_longer_than_max_read_plus_a_second")
            return
        with lib_guard(self.case):
            if isinstance(op, list) and op[0] == "read_n":
                # many reads in one step (deep state); each is checked like a single read
                self.ops.pop()
                for _ in range(op[1]):
                    self.apply("read")
                self.ops = [o for o in self.ops if o != "read"][-20:] + [op]
                self.classes.add("thousands_of_reads")
                return
            if op == "read":
                got = self.reader.read()
                if self.k < len(self.spans):
                    a, b = self.spans[self.k]
                    want = self.src[a * self.bps: b * self.bps]
                else:
                    want = None
                self.k += 1
                if got != want:
                    raise Violation(
                        f"read #{self.k} of pass {self.nrewinds} returned "
                        f"{None if got is None else len(got) // self.bps} samples, model: "
                        f"{None if want is None else (a, b)}", case)
                if self.rewound:
                    self.classes.add("replay_read")
            elif op == "rewind":
                if not self.recording:
                    self.classes.add("non_recording")
                    try:
                        self.reader.rewind()
                    except AttributeError:
                        return
                    raise Violation("non-recording reader has rewind()", case)
                if not self.rewound:
                    self.recorded = self.data[: self.consumed() * self.bps]
                    if self.k == 0:
                        self.classes.add("rewind_after_zero_reads")
                    if 0 < self.consumed() < self.V and (self.H is not None or self.cfg.get("mr") is not None):
                        self.partial_rewind = True
                        if self.H is not None and self.cfg.get("mr") is not None:
                            self.classes.add("overlap_maxread_partial")
                if self.last_op == "rewind":
                    self.classes.add("rewind_twice_in_a_row")
                self.reader.rewind()
                self.rewound = True
                self.nrewinds += 1
                self.k = 0
                self.src = self.recorded
                self.spans, _ = block_model(len(self.recorded) // self.bps, self.B, self.H, None)
            elif op == "data":
                if not self.recording:
                    self.classes.add("non_recording")
                    try:
                        self.reader.data
                    except AttributeError:
                        return
                    raise Violation("non-recording reader exposes data", case)
                if not self.rewound:
                    self.classes.add("data_before_rewind")
                    try:
                        d = self.reader.data
                    except RuntimeError:
                        return
                    raise Violation(f"data before the first rewind returned {d!r:.60} instead of raising", case)
                d = self.reader.data
                if not isinstance(d, (bytes, bytearray)):
                    raise Violation(f"data is {d!r:.60}, not bytes", case)
                if d != self.recorded:
                    raise Violation(
                        f"data holds {len(d) // self.bps} samples, expected the {len(self.recorded) // self.bps} "
                        f"consumed before the first rewind{'' if len(d) != len(self.recorded) else ' (content differs)'}",
                        case)
            else:
                raise HarnessError(op)
        self.last_op = op

    def nontrivial(self):
        active = self.H is not None or self.cfg.get("mr") is not None
        return self.recording and active and (self.partial_rewind or self.nrewinds >= 2)


def check_case(case, rec):
    it = Interp(case["cfg"])
    try:
        for op in case["ops"]:
            it.apply(op)
    finally:
        it.close()
    rec.note(case, it.nontrivial(), it.classes, out={"rewinds": it.nrewinds})


@st.composite
def config(draw, maxN=50):
    B = draw(st.integers(1, 8))
    N = draw(st.integers(0, maxN))
    if draw(rarely(10)):
        B, N = 1, draw(st.integers(2050, 2300))  # room for more than 2048 one-sample blocks
    if draw(rarely(8)):
        sw, ch, B = draw(st.sampled_from([(2, 1, 8), (4, 2, 2), (2, 2, 4), (1, 2, 8), (4, 1, 4)]))
        return dict(sr=draw(st.sampled_from([8, 10, 100, 16000])), sw=sw, ch=ch, N=draw(st.integers(2 * B, 12 * B)), B=B, H=None, fb=0, fh=0,
                    mr=None, kind=draw(st.sampled_from(["bytes", "raw_lazy", "wav_lazy", "buffer", "stdin"])),
                    how=draw(st.sampled_from(["record", "Recorder"])), salt=0, prepos=0, crc=True)
    return dict(
        sr=draw(st.sampled_from([8, 10, 100, 16000])), sw=draw(st.sampled_from([1, 2, 4])),
        ch=draw(st.integers(1, 2)), N=N, B=B, H=draw(st.one_of(st.none(), st.integers(1, B))),
        fb=draw(st.sampled_from([0, 0, 0.5, 0.75])), fh=0,
        mr=draw(st.one_of(st.none(), st.tuples(st.integers(0, N + 5), st.sampled_from([0, 0, 0.5, 0.25])).map(list),
                          st.tuples(st.integers(0, N + 5), st.sampled_from([0, 0, 0.5, 0.25])).map(list),
                          st.tuples(st.integers(-5, -1), st.sampled_from([0, 0.25])).map(list))),
        kind=draw(st.sampled_from(["bytes", "bytes", "raw_lazy", "wav_lazy", "buffer", "stdin", "stdin_pipe"])),
        how=draw(st.sampled_from(["record", "Recorder", "record", "Recorder", "plain"])),
        salt=draw(st.integers(0, 10**6)),
        prepos=draw(st.sampled_from([0, 0, 3, 7])),
    )


class RecorderMachine(RuleBasedStateMachine):
    rec = None

    def __init__(self):
        super().__init__()
        self.it = None

    @initialize(cfg=config())
    def setup(self, cfg):
        self.it = Interp(cfg)

    @rule(n=st.integers(1, 4))
    def read(self, n):
        for _ in range(n):
            self.it.apply("read")

    @rule(go=rarely(6), n=st.sampled_from([1023, 1024, 1025, 2047, 2048, 2049, 2100]))
    def read_many(self, go, n):
        if go and 2000 <= self.it.cfg["N"] < 100000:
            self.it.apply(["read_n", n])

    @rule()
    def rewind(self):
        self.it.apply("rewind")

    @rule()
    def data(self):
        self.it.apply("data")

    def teardown(self):
        if self.it is not None:
            self.it.close()
            self.rec.note(self.it.case(), self.it.nontrivial(), self.it.classes,
                          out={"rewinds": self.it.nrewinds})


def explicit_cases():
    cfg = dict(sr=10, sw=2, ch=2, N=23, B=5, H=2, mr=[17, 0], kind="bytes", how="record", salt=4)
    return [
        {"cfg": cfg, "ops": ["data", "read", "read", "rewind", "data", "read", "read", "read", "rewind", "rewind", "data", "read"]},
        {"cfg": dict(cfg, how="Recorder"), "ops": ["rewind", "read", "read", "data"]},
        {"cfg": dict(cfg, N=2250000, sw=4, ch=2, sr=44100, B=100000, H=None, mr=None), "ops": [["read_n", 23], "rewind", "data", ["read_n", 24]]},
        {"cfg": dict(cfg, N=2300, B=1, H=None, mr=None), "ops": [["read_n", 2100], "rewind", "data", ["read_n", 2101], "rewind", "data"]},
        # 36 MiB and 70 MiB recorded before the first rewind (blocks of 1 MiB / 3.5 MiB)
        {"cfg": dict(cfg, N=9437184, sw=4, ch=1, sr=48000, B=262144, H=None, mr=None), "ops": [["read_n", 37], "rewind", "data", ["read_n", 37], "rewind", "data"]},
        {"cfg": dict(cfg, N=18350080, sw=2, ch=2, sr=48000, B=917504, H=None, mr=None, how="Recorder", kind="raw_lazy"), "ops": [["read_n", 21], "rewind", "data", ["read_n", 3]]},
        # a negative max_read: nothing may be read
        {"cfg": dict(cfg, mr=[-3, 0]), "ops": ["read", "read", "rewind", "data", "read"]},
        {"cfg": dict(cfg, mr=[-1, 0.5], H=None, how="Recorder", kind="buffer"), "ops": ["read", "rewind", "data", "read", "rewind", "data"]},
        {"cfg": dict(cfg, N=2300, B=1, H=None, mr=[2200, 0], kind="raw_lazy", how="Recorder"), "ops": [["read_n", 2048], "rewind", "data", "read"]},
        {"cfg": dict(cfg, kind="buffer", prepos=5), "ops": ["read", "read", "rewind", "data", "read", "read", "read"]},
        {"cfg": dict(cfg, how="plain"), "ops": ["read", "data", "rewind", "read"]},
        {"cfg": dict(cfg, H=None, mr=None, kind="wav_lazy"), "ops": ["read"] * 7 + ["rewind", "data"] + ["read"] * 7},
        {"cfg": dict(cfg, sw=2, ch=1, B=8, H=None, N=80, mr=None, crc=True), "ops": ["read"] * 6 + ["rewind", "data"] + ["read"] * 7 + ["rewind", "data"]},
        {"cfg": dict(cfg, sw=4, ch=2, B=2, H=None, N=21, mr=[18, 0], crc=True, how="Recorder", kind="raw_lazy"), "ops": ["read"] * 12 + ["rewind", "data"] + ["read"] * 10},
        {"cfg": dict(cfg, N=40, B=5, H=None, mr=[3, 0]), "ops": ["read", "read", ["pause", 1.6], "rewind", "data", "read", "read", "rewind", "read"]},
        {"cfg": dict(cfg, N=40, B=5, H=2, mr=[12, 0], how="Recorder"), "ops": ["read", ["pause", 2.4], "read", "read", "rewind", ["pause", 0.3], "data", "read", "read", "read"]},
    ]


def jobs(tier, seed):
    b = BOUNDS[tier]
    return [{"name": f"sm-{i}", "seed": seed * 1000 + i, "n": b["n"], "steps": b["steps"]} for i in range(16)]


def run_job(job, rec):
    hyp_run_machine(sys.modules[__name__], RecorderMachine, rec, job["seed"], job["n"], job["steps"])
