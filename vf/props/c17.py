"""C17 - region algebra (rule-based state machine over a pool of regions)."""

import dataclasses
import sys

from hypothesis import strategies as st
from hypothesis.stateful import RuleBasedStateMachine, initialize, rule

from ..common import HarnessError, Violation, hyp_run_machine, import_auditok, lib_guard
from ..gen import rarely
from ..oracles import exact_round
from .c10 import content

import_auditok()
import auditok  # noqa: E402
from auditok.exceptions import AudioParameterError  # noqa: E402

ID = "C17"
LEVEL = "exploration"
RULE = (
    "Histories = Hypothesis rule-based state machine over a pool of regions, each paired with a bytes-level model "
    "(bytes, rate, width, channels). Steps: new region (distinct content, incl. empty, usually the pool's base format, "
    "sometimes a format differing in rate, width or channels - or with the same bytes per sample split differently "
    "into width x channels -, optional start), twin (same bytes, another format), a+b, sum([...]), a*n, n*a, a/n (n>=1 "
    "incl. n>len; pieces go back to the pool), sep.join([...]), make_silence(d), slice, ==, attempted mutation "
    "(setattr/delattr), construction from ragged data. Oracle per step: byte-level concatenation / repetition / "
    "interleaving; division -> min(n,len) contiguous pieces, lengths differing by <= 1, concatenating to the original; "
    "make_silence(d) -> round_half_even(d*rate) zero samples (exact rationals, razor); differing formats -> "
    "AudioParameterError and no result; ragged data -> AudioParameterError; mutation -> FrozenInstanceError; a==b iff "
    "models equal (start ignored); after every step every pooled region still equals its model (operands untouched). "
    "Non-trivial = a history with a step whose operand was itself produced by an earlier step, on data with > 1 byte "
    "per sample."
)
RULE += (
    ' Also: join over one-shot iterables (generator, iter, map) and tuples must equal the list join; join over a generator of 250..900 temporaries, optionally ended by a region of another format (error expected, several attempts); regions of 700..160000 samples divided into 700..8000 pieces.'
)
MUST_HIT = ["div_remainder_multichannel", "div_n_gt_len", "mismatch_sr", "mismatch_sw", "mismatch_ch", "join_3",
            "mutation_refused", "ragged_refused", "silence", "eq_true", "eq_false", "twin_same_bytes_per_sample", "format_grid",
            "silence_over_1MiB", "region_algebra_in_parallel_threads", "augmented_assignment", "join_one_shot_iterable", "div_into_700_or_more", "join_many_then_mismatch"]
ASSUMPTIONS = ["dividing an empty region is not claimed by the statement and not generated"]
BOUNDS = {"quick": dict(n=200, steps=30), "thorough": dict(n=4000, steps=50)}
MAXBYTES = 6000


class Interp:
    def __init__(self, cfg):
        self.cfg = cfg
        sr, sw, ch = cfg["fmt"]
        # four formats: the base one and one differing in each parameter
        self.fmts = [(sr, sw, ch), (sr + 1, sw, ch), (sr, {1: 2, 2: 4, 4: 1}[sw], ch), (sr, sw, ch + 1)]
        # fifth format: same number of bytes per sample, other (width, channels) split - when one exists
        alt = [(w, (sw * ch) // w) for w in (1, 2, 4) if (sw * ch) % w == 0 and w != sw]
        self.fmts.append((sr,) + alt[0] if alt else (sr, sw, ch + 2))
        self.ops = []
        self.pool = []  # [(region, (bytes, sr, sw, ch), depth)]
        self.classes = set()
        self.deep = False

    def case(self):
        return {"cfg": self.cfg, "ops": list(self.ops)}

    def add(self, region, model, depth):
        if not isinstance(region, auditok.AudioRegion):
            raise Violation(f"result is {type(region).__name__}, not an AudioRegion", self.case())
        self.verify(region, model, "result")
        if not hasattr(self, "snap"):
            self.snap = {}
        self.snap[id(region)] = self.times(region)
        if len(self.pool) < 14:
            self.pool.append((region, model, depth))
        else:
            self.pool[len(self.ops) % 14] = (region, model, depth)

    @staticmethod
    def times(region):
        import warnings

        with warnings.catch_warnings():
            warnings.simplefilter("ignore")
            meta = region.meta
            return (region.start, region.end, region.duration, None if meta is None else sorted(dict(meta).items()))

    def verify(self, region, model, what):
        data, sr, sw, ch = model
        if bytes(region) != data or region.data != data:
            raise Violation(
                f"{what}: region holds {len(bytes(region))} bytes, model {len(data)}"
                f"{' (content differs)' if len(bytes(region)) == len(data) else ''}", self.case())
        if (region.sampling_rate, region.sample_width, region.channels) != (sr, sw, ch):
            raise Violation(f"{what}: parameters {(region.sr, region.sw, region.ch)} != {(sr, sw, ch)}", self.case())
        if len(region) != len(data) // (sw * ch):
            raise Violation(f"{what}: len {len(region)}", self.case())

    def pick(self, i):
        return self.pool[i % len(self.pool)]

    def expect_mismatch(self, models):
        base = models[0][1:]
        for m in models[1:]:
            for k, name in enumerate(("sr", "sw", "ch")):
                if m[1:][k] != base[k]:
                    return name
        return None

    def combine(self, fn, models, result_bytes, depth):
        """run fn(); expect AudioParameterError iff formats differ"""
        mm = self.expect_mismatch(models)
        try:
            res = fn()
        except AudioParameterError:
            if mm is None:
                raise Violation("AudioParameterError although all operands share their format", self.case())
            self.classes.add("mismatch_" + mm)
            return
        if mm is not None:
            raise Violation(f"operands differ in {mm} but a result was produced: {res!r}", self.case())
        self.add(res, (result_bytes,) + models[0][1:], depth)

    def apply(self, op):
        op = list(op)
        name = op[0]
        if name != "new" and name != "silence" and name != "ragged" and not self.pool:
            return
        self.ops.append(op)
        with lib_guard(self.case):
            held = [r for r, _m, _d in self.pool]
            before = [self.times(r) for r in held]
            self._apply(name, op)
            for region, model, _d in self.pool:
                self.verify(region, model, "operand after the step")
            for r, t in zip(held, before):
                if self.times(r) != t:
                    raise Violation(f"a step changed start / end / duration / meta of a region it only used as an operand: "
                                    f"{t} -> {self.times(r)}", self.case())

    def _apply(self, name, op):
        case = self.case
        if name == "new":
            _n, N, f, salt, start = op
            sr, sw, ch = self.fmts[f]
            data = content(N, sw * ch, salt)
            r = auditok.AudioRegion(data, sr, sw, ch, start) if start is not None else auditok.AudioRegion(data, sr, sw, ch)
            self.add(r, (data, sr, sw, ch), 0)
        elif name == "twin":
            # same bytes as an existing region, another format: equal bytes must not make them equal
            a, ma, _da = self.pick(op[1])
            sr, sw, ch = self.fmts[op[2]]
            if len(ma[0]) % (sw * ch):
                self.ops.pop()
                return
            r = auditok.AudioRegion(ma[0], sr, sw, ch)
            self.add(r, (ma[0], sr, sw, ch), 0)
            want = (ma[1:] == (sr, sw, ch))
            if (a == r) != want:
                raise Violation(f"regions with identical bytes and formats {ma[1:]} / {(sr, sw, ch)}: == is {a == r}", case())
            self.classes.add("twin_other_format" if not want else "twin_same_format")
            if not want and (sw * ch) == ma[2] * ma[3] and sr == ma[1]:
                self.classes.add("twin_same_bytes_per_sample")
        elif name == "add":
            (a, ma, da), (b, mb, db) = self.pick(op[1]), self.pick(op[2])
            if len(ma[0]) + len(mb[0]) > MAXBYTES:
                return
            self.touch(ma, da, db)
            self.combine(lambda: a + b, [ma, mb], ma[0] + mb[0], max(da, db) + 1)
        elif name == "iadd":
            # x = a; x += b: a new region bound to x, the object a refers to stays what it is
            (a, ma, da), (b, mb, db) = self.pick(op[1]), self.pick(op[2])
            if len(ma[0]) + len(mb[0]) > MAXBYTES:
                return
            self.touch(ma, da, db)
            self.classes.add("augmented_assignment")

            def run():
                x = a
                x += b
                return x

            self.combine(run, [ma, mb], ma[0] + mb[0], max(da, db) + 1)
        elif name == "sum_loop":
            items = [self.pick(i) for i in op[1]]
            if sum(len(m[0]) for _r, m, _d in items) > MAXBYTES:
                return
            self.touch(items[0][1], *[d for _r, _m, d in items])
            self.classes.add("augmented_assignment")

            def run():
                acc = 0
                for r, _m, _d in items:
                    acc += r
                return acc

            self.combine(run, [m for _r, m, _d in items], b"".join(m[0] for _r, m, _d in items), max(d for _r, _m, d in items) + 1)
        elif name == "sum":
            items = [self.pick(i) for i in op[1]]
            if sum(len(m[0]) for _r, m, _d in items) > MAXBYTES:
                return
            self.touch(items[0][1], *[d for _r, _m, d in items])
            self.combine(lambda: sum(r for r, _m, _d in items), [m for _r, m, _d in items],
                         b"".join(m[0] for _r, m, _d in items), max(d for _r, _m, d in items) + 1)
        elif name in ("mul", "rmul"):
            a, ma, da = self.pick(op[1])
            n = op[2]
            if len(ma[0]) * n > MAXBYTES:
                return
            self.touch(ma, da)
            res = a * n if name == "mul" else n * a
            self.add(res, (ma[0] * n,) + ma[1:], da + 1)
        elif name == "div":
            a, ma, da = self.pick(op[1])
            n = op[2]
            bps = ma[2] * ma[3]
            L = len(ma[0]) // bps
            if L == 0:
                self.ops.pop()
                return
            self.touch(ma, da)
            pieces = a / n
            if not isinstance(pieces, (list, tuple)):
                raise Violation(f"division returned {type(pieces).__name__}", case())
            if len(pieces) != min(n, L):
                raise Violation(f"{L} samples / {n} gave {len(pieces)} pieces, expected {min(n, L)}", case())
            lens = [len(p) for p in pieces]
            if max(lens) - min(lens) > 1:
                raise Violation(f"piece lengths {lens} differ by more than one sample", case())
            if b"".join(bytes(p) for p in pieces) != ma[0]:
                raise Violation(f"pieces (lengths {lens}) do not concatenate to the original", case())
            pos = 0
            for p in pieces:
                self.add(p, (ma[0][pos * bps: (pos + len(p)) * bps],) + ma[1:], da + 1)
                pos += len(p)
            if n > L:
                self.classes.add("div_n_gt_len")
            if L % n and ma[3] > 1:
                self.classes.add("div_remainder_multichannel")
        elif name == "join":
            sep, ms, dsep = self.pick(op[1])
            items = [self.pick(i) for i in op[2]]
            if sum(len(m[0]) for _r, m, _d in items) + len(ms[0]) * len(items) > MAXBYTES:
                return
            self.touch(ms, dsep, *[d for _r, _m, d in items])
            if len(items) >= 3:
                self.classes.add("join_3")
            how = op[3] if len(op) > 3 else "list"
            regs = [r for r, _m, _d in items]
            others = {"list": lambda: regs, "tuple": lambda: tuple(regs), "gen": lambda: (r for r in regs),
                      "iter": lambda: iter(regs), "map": lambda: map(lambda r: r, regs)}[how]
            if how != "list":
                self.classes.add("join_one_shot_iterable" if how != "tuple" else "join_tuple")
            self.combine(lambda: sep.join(others()), [ms] + [m for _r, m, _d in items],
                         ms[0].join(m[0] for _r, m, _d in items), max([dsep] + [d for _r, _m, d in items]) + 1)
        elif name == "silence":
            _n, k, eps, f = op
            sr, sw, ch = self.fmts[f]
            d = (k + eps) / sr
            n, razor = exact_round(d, sr)
            if razor:
                d = k / sr
                n, razor = exact_round(d, sr)
                if razor:
                    return
            r = auditok.make_silence(d, sr, sw, ch)
            self.classes.add("silence")
            if n * sw * ch > 2**20:
                self.classes.add("silence_over_1MiB")
            self.add(r, (b"\0" * (n * sw * ch), sr, sw, ch), 0)
        elif name == "slice":
            a, ma, da = self.pick(op[1])
            bps = ma[2] * ma[3]
            L = len(ma[0]) // bps
            samples = [ma[0][i * bps: (i + 1) * bps] for i in range(L)]
            self.add(a[op[2]: op[3]], (b"".join(samples[op[2]: op[3]]),) + ma[1:], da + 1)
        elif name == "eq":
            (a, ma, _da), (b, mb, _db) = self.pick(op[1]), self.pick(op[2])
            want = ma == mb
            if (a == b) != want or (a != b) == want:
                raise Violation(f"a == b is {a == b} for models {'equal' if want else 'different'} "
                                f"({ma[1:]}, {len(ma[0])} bytes vs {mb[1:]}, {len(mb[0])} bytes)", case())
            self.classes.add("eq_true" if want else "eq_false")
        elif name == "mutate":
            a, ma, _da = self.pick(op[1])
            attr = op[2]
            try:
                if op[3] == "set":
                    setattr(a, attr, b"" if attr == "data" else 1)
                else:
                    delattr(a, attr)
            except dataclasses.FrozenInstanceError:
                self.classes.add("mutation_refused")
                return
            raise Violation(f"{op[3]}attr(region, {attr!r}) succeeded: regions must be immutable", case())
        elif name == "ragged":
            _n, f, nbytes = op
            sr, sw, ch = self.fmts[f]
            if nbytes % (sw * ch) == 0:
                nbytes += 1
                if nbytes % (sw * ch) == 0:
                    self.ops.pop()
                    return
            try:
                r = auditok.AudioRegion(b"\1" * nbytes, sr, sw, ch)
            except AudioParameterError:
                self.classes.add("ragged_refused")
                return
            raise Violation(f"{nbytes} bytes accepted as ({sw} bytes x {ch} channels) samples: {r!r}", case())
        else:
            raise HarnessError(name)

    def touch(self, model, *depths):
        if max(depths) >= 1 and model[2] * model[3] > 1:
            self.deep = True


GRID_SR = (7999, 8000, 8001)
GRID_SW = (1, 2, 4)
GRID_CH = (1, 2, 15, 16, 17, 32, 255, 256, 257)


def check_grid(case, rec):
    """One format against every other format of the grid: combining regions must raise
    AudioParameterError exactly when the formats differ (rates one apart, channel counts around
    16 / 256, all widths); == must be False for different formats even with identical bytes."""
    a_fmt = tuple(case["grid_fmt"])
    sr, sw, ch = a_fmt
    n = 0
    for sr2 in GRID_SR:
        for sw2 in GRID_SW:
            for ch2 in GRID_CH:
                b_fmt = (sr2, sw2, ch2)
                # one sample each; same byte content where the sizes allow it
                size = sw * ch * sw2 * ch2
                a = auditok.AudioRegion(bytes(size), sr, sw, ch)
                b = auditok.AudioRegion(bytes(size), sr2, sw2, ch2)
                same = a_fmt == b_fmt
                for opname, fn in (("+", lambda: a + b), ("join", lambda: a.join([b])), ("sum", lambda: sum([a, b]))):
                    try:
                        res = fn()
                        raised = False
                    except AudioParameterError:
                        raised = True
                    if raised == same:
                        raise Violation(
                            f"{a_fmt} {opname} {b_fmt}: " + ("AudioParameterError although the formats agree" if same
                                                             else f"no error although the formats differ ({res!r})"), case)
                if (a == b) != same:
                    raise Violation(f"regions of formats {a_fmt} and {b_fmt} with identical bytes: == is {a == b}", case)
                n += 1
    rec.note(case, True, {"format_grid"}, out={"pairs": n})


def check_threads(case, rec):
    """Silences and sums made by several threads at once, each with its own durations / operands: every result is
    what a single thread gets (the threads give up the interpreter at every line of the library)."""
    import threading

    from ..common import preempt_every_line

    sr, sw, ch = case["threads_fmt"]
    bps = sw * ch
    a = auditok.AudioRegion(content(5, bps, 1), sr, sw, ch)
    b = auditok.AudioRegion(content(3, bps, 2), sr, sw, ch)
    wrong = []

    gate = threading.Barrier(case["nthreads"])

    def work(tid):
        for i in range(case["n"]):
            try:
                gate.wait(30)  # all threads enter the library together
            except threading.BrokenBarrierError:
                return
            # ever longer silences, different in every thread, each longer than anything asked for in the round before
            k = case["base"] + 10 * i + tid * 3
            r = auditok.make_silence(k / sr, sr, sw, ch)
            if len(r) != k or bytes(r) != bytes(k * bps):
                wrong.append(f"make_silence({k}/{sr}) has {len(r)} samples in thread {tid}")
                gate.abort()
                return
            s_ = a + r + b
            if bytes(s_) != bytes(a) + bytes(k * bps) + bytes(b):
                wrong.append(f"a + silence + b differs in thread {tid}")
                return
            j = r.join([a, b, a])
            if bytes(j) != bytes(k * bps).join([bytes(a), bytes(b), bytes(a)]):
                wrong.append(f"silence.join([...]) differs in thread {tid}")
                return

    with lib_guard(lambda: case), preempt_every_line():
        ts = [threading.Thread(target=work, args=(t,)) for t in range(case["nthreads"])]
        for t in ts:
            t.start()
        for t in ts:
            t.join(120)
    rec.note(case, True, {"region_algebra_in_parallel_threads"}, out="ok")
    if wrong:
        raise Violation(wrong[0] + " while other threads were doing the same with their own values", case)


def check_div_big(case, rec):
    """a region of L samples divided into n pieces, min(n, L) in the hundreds or thousands"""
    L, n, (sr, sw, ch), salt = case["div_big"]
    bps = sw * ch
    data = content(L, bps, salt)
    with lib_guard(lambda: case):
        pieces = auditok.AudioRegion(data, sr, sw, ch) / n
    lens = [len(p) for p in pieces]
    if len(pieces) != min(n, L):
        raise Violation(f"{L} samples / {n} gave {len(pieces)} pieces, expected {min(n, L)}", case)
    if max(lens) - min(lens) > 1:
        raise Violation(f"{L} samples / {n}: piece lengths between {min(lens)} and {max(lens)}", case)
    if b"".join(bytes(p) for p in pieces) != data:
        raise Violation(f"{L} samples / {n}: the pieces do not concatenate to the original", case)
    if any((p.sr, p.sw, p.ch) != (sr, sw, ch) for p in pieces):
        raise Violation("a piece has another format than the region divided", case)
    rec.note(case, bps > 1, {"div_into_700_or_more"}, out={"pieces": len(pieces)})


def check_join_many(case, rec):
    """sep.join(<generator of temporaries>): hundreds of regions that only exist while the join looks at
    them (the documented silence.join(split(...)) idiom), optionally followed by one of another format.
    The result must be what the same join over a list gives: the interleaving, or AudioParameterError."""
    cfg = case["join_many"]
    sr, sw, ch = cfg["fmt"]
    bps = sw * ch
    sep = auditok.AudioRegion(content(cfg["sep"], bps, 5), sr, sw, ch)
    bad = cfg.get("bad")
    badfmt = None if bad is None else [(sr + 1, sw, ch), (sr, {1: 2, 2: 4, 4: 1}[sw], ch), (sr, sw, ch + 1)][bad]
    classes = {"join_many_temporaries"}
    for attempt in range(cfg.get("attempts", 1)):
        count = cfg["count"] + 37 * attempt
        datas = [content(1 + (i + attempt) % 3, bps, i) for i in range(count)]

        def temporaries():
            for d in datas:
                yield auditok.AudioRegion(d, sr, sw, ch)
            if badfmt is not None:
                yield auditok.AudioRegion(bytes(badfmt[1] * badfmt[2]), *badfmt)

        with lib_guard(lambda: case):
            try:
                res = sep.join(temporaries())
                raised = False
            except AudioParameterError:
                raised = True
        if badfmt is not None:
            classes.add("join_many_then_mismatch")
            if not raised:
                raise Violation(
                    f"join over a generator of {count} temporaries followed by a region of format {badfmt} "
                    f"(separator {(sr, sw, ch)}) produced a result instead of AudioParameterError", case)
        else:
            if raised:
                raise Violation("AudioParameterError although every region shares the separator's format", case)
            if bytes(res) != bytes(sep).join(datas) or (res.sr, res.sw, res.ch) != (sr, sw, ch):
                raise Violation(f"join over a generator of {count} temporaries is not the interleaving "
                                f"({len(bytes(res))} bytes, expected {len(bytes(sep).join(datas))})", case)
    rec.note(case, bps > 1, classes, out={"count": cfg["count"]})


@st.composite
def big_case(draw):
    fmt = [draw(st.sampled_from([8000, 16000, 10])), draw(st.sampled_from([1, 2, 4])), draw(st.integers(1, 3))]
    if draw(st.booleans()):
        L = draw(st.integers(700, 6000))
        n = draw(st.one_of(st.integers(700, 8000), st.sampled_from([L - 1, L, L + 1, 2 * L])))
        return {"div_big": [L, n, fmt, draw(st.integers(0, 99))]}
    return {"join_many": {"fmt": fmt, "sep": draw(st.integers(0, 3)), "count": draw(st.integers(250, 700)),
                          "bad": draw(st.sampled_from([None, 0, 1, 2, 0, 1, 2])), "attempts": 6}}


def check_case(case, rec):
    if "grid_fmt" in case:
        return check_grid(case, rec)
    if "threads_fmt" in case:
        return check_threads(case, rec)
    if "div_big" in case:
        return check_div_big(case, rec)
    if "join_many" in case:
        return check_join_many(case, rec)
    it = Interp(case["cfg"])
    for op in case["ops"]:
        it.apply(op)
    rec.note(case, it.deep, it.classes, out={"pool": len(it.pool)})


IDX = st.integers(0, 13)
FMT = st.sampled_from([0, 0, 0, 0, 0, 0, 1, 2, 3, 4])


class AlgebraMachine(RuleBasedStateMachine):
    rec = None

    def __init__(self):
        super().__init__()
        self.it = None

    @initialize(sr=st.sampled_from([8, 10, 100, 16000]), sw=st.sampled_from([1, 2, 4]), ch=st.integers(1, 3),
                N=st.integers(1, 9), salt=st.integers(0, 10**6))
    def setup(self, sr, sw, ch, N, salt):
        self.it = Interp({"fmt": [sr, sw, ch]})
        self.it.apply(["new", N, 0, salt, None])

    @rule(N=st.integers(0, 9), f=FMT, salt=st.integers(0, 10**6),
          start=st.one_of(st.none(), st.floats(0, 100, allow_nan=False)))
    def new(self, N, f, salt, start):
        self.it.apply(["new", N, f, salt, start])

    @rule(i=IDX, f=st.sampled_from([0, 1, 2, 3, 4, 4]))
    def twin(self, i, f):
        self.it.apply(["twin", i, f])

    @rule(i=IDX, j=IDX)
    def add(self, i, j):
        self.it.apply(["add", i, j])

    @rule(ids=st.lists(IDX, min_size=1, max_size=4))
    def sum_(self, ids):
        self.it.apply(["sum", ids])

    @rule(i=IDX, j=IDX)
    def iadd(self, i, j):
        self.it.apply(["iadd", i, j])

    @rule(ids=st.lists(IDX, min_size=1, max_size=4))
    def sum_loop(self, ids):
        self.it.apply(["sum_loop", ids])

    @rule(i=IDX, n=st.sampled_from([2**31, 2**63 - 1, 2**63, 2**64, 2**64 + 3, 10**30]))
    def div_huge(self, i, n):
        if len(self.it.pick(i)[1][0]) <= 64:
            self.it.apply(["div", i, n])

    @rule(i=IDX, n=st.integers(1, 4), r=st.booleans())
    def mul(self, i, n, r):
        self.it.apply(["rmul" if r else "mul", i, n])

    @rule(i=IDX, n=st.integers(1, 12))
    def div(self, i, n):
        self.it.apply(["div", i, n])

    @rule(i=IDX, ids=st.lists(IDX, min_size=0, max_size=4), how=st.sampled_from(["list", "list", "tuple", "gen", "iter", "map"]))
    def join(self, i, ids, how):
        self.it.apply(["join", i, ids, how])

    @rule(k=st.integers(0, 12), eps=st.sampled_from([0.0, 0.25, 0.5, 0.75, -0.25]), f=FMT)
    def silence(self, k, eps, f):
        self.it.apply(["silence", k, eps if k or eps >= 0 else 0.0, f])

    @rule(secs=st.integers(1, 3), k=st.integers(0, 40), eps=st.sampled_from([0.5, 0.5, 0.5, 0.0, 0.25]), f=FMT)
    def silence_over_a_second(self, secs, k, eps, f):
        # a second or more, ending on (or near) half a sample: still round-half-even of d*rate
        sr = self.it.fmts[f][0]
        if sr <= 16001:
            self.it.apply(["silence", secs * sr + k, eps, f])

    @rule(big=rarely(12), k=st.sampled_from([262144, 524287, 524288, 524289, 700000, 1048576, 1048577]))
    def big_silence(self, big, k):
        if big:
            self.it.apply(["silence", k, 0.0, 0])

    @rule(i=IDX, a=st.one_of(st.none(), st.integers(-12, 12)), b=st.one_of(st.none(), st.integers(-12, 12)))
    def slice_(self, i, a, b):
        self.it.apply(["slice", i, a, b])

    @rule(i=IDX, j=IDX)
    def eq(self, i, j):
        self.it.apply(["eq", i, j])

    @rule(i=IDX, attr=st.sampled_from(["data", "sampling_rate", "sample_width", "channels", "start"]),
          how=st.sampled_from(["set", "del"]))
    def mutate(self, i, attr, how):
        self.it.apply(["mutate", i, attr, how])

    @rule(f=FMT, nbytes=st.integers(1, 40))
    def ragged(self, f, nbytes):
        self.it.apply(["ragged", f, nbytes])

    def teardown(self):
        if self.it is not None:
            self.rec.note(self.it.case(), self.it.deep, self.it.classes, out={"pool": len(self.it.pool)})


def explicit_cases():
    cfg = {"fmt": [10, 2, 2]}
    return [
        # (first: module-level state that an implementation might keep - a shared buffer, a cache - is still small)
        {"threads_fmt": [8000, 2, 1], "nthreads": 3, "n": 60, "base": 1},
        {"threads_fmt": [10, 1, 2], "nthreads": 4, "n": 40, "base": 700},
        {"cfg": cfg, "ops": [["new", 7, 0, 1, None], ["new", 3, 0, 2, 1.5], ["add", 0, 1], ["div", 2, 3], ["div", 1, 9],
                             ["join", 1, [0, 2, 3]], ["mul", 4, 3], ["rmul", 1, 2], ["sum", [0, 1, 2]],
                             ["silence", 3, 0.25, 0], ["slice", 2, -4, None], ["eq", 0, 0], ["eq", 0, 1],
                             ["mutate", 0, "data", "set"], ["mutate", 0, "channels", "del"], ["ragged", 0, 5]]},
        {"cfg": cfg, "ops": [["new", 4, 0, 1, None], ["new", 4, 1, 1, None], ["new", 4, 2, 1, None], ["new", 4, 3, 1, None],
                             ["add", 0, 1], ["add", 0, 2], ["add", 0, 3], ["join", 0, [0, 3]], ["sum", [0, 2]],
                             ["new", 4, 0, 1, 2.5], ["eq", 0, 4], ["eq", 0, 1], ["twin", 0, 4], ["add", 0, 5], ["eq", 0, 5],
                             ["join", 0, [5]], ["twin", 0, 0]]},
        {"cfg": {"fmt": [16000, 2, 1]}, "ops": [["silence", 640000, 0.0, 0], ["silence", 524289, 0.5, 0], ["eq", 0, 1]]},
        {"cfg": {"fmt": [8000, 2, 3]}, "ops": [["silence", 200000, 0.0, 0]]},
        {"cfg": cfg, "ops": [["new", 7, 0, 1, None], ["new", 3, 0, 2, 1.5], ["new", 2, 0, 3, None], ["join", 1, [0, 2, 1], "gen"],
                             ["join", 0, [1, 2], "iter"], ["join", 2, [0, 1, 2], "map"], ["join", 2, [0, 1], "tuple"],
                             ["new", 4, 3, 1, None], ["join", 0, [1, 6], "gen"]]},
        {"cfg": {"fmt": [8000, 2, 1]}, "ops": [["silence", 8004, 0.5, 0], ["silence", 8005, 0.5, 0], ["silence", 16003, 0.5, 0], ["silence", 24006, 0.5, 0],
                                               ["silence", 8000, 0.5, 0], ["silence", 8001, 0.5, 0]]},
        {"cfg": {"fmt": [10, 2, 2]}, "ops": [["silence", 10 + k, 0.5, 0] for k in range(0, 24)]},
        # regions that carry times, joined in an order that is not chronological: the order given is the order joined
        {"cfg": cfg, "ops": [["new", 3, 0, 1, 5.0], ["new", 2, 0, 2, 1.0], ["new", 4, 0, 3, 3.0], ["new", 1, 0, 4, 0.5],
                             ["join", 3, [0, 1, 2]], ["join", 0, [2, 1], "gen"], ["join", 1, [0, 2, 3, 1], "tuple"], ["sum", [0, 1, 2]], ["add", 0, 1]]},
        {"cfg": cfg, "ops": [["new", 5, 0, 1, None], ["new", 3, 0, 2, 1.5], ["new", 1, 0, 3, None], ["div", 0, 1], ["div", 2, 1], ["div", 2, 4], ["div", 1, 1],
                             ["iadd", 0, 1], ["iadd", 1, 1], ["sum_loop", [0, 1, 2]], ["sum_loop", [1]], ["div", 0, 2**64], ["div", 1, 10**30],
                             ["div", 0, 2**63], ["eq", 0, 0]]},
        {"div_big": [2000, 747, [16000, 2, 1], 1]}, {"div_big": [2000, 1000, [16000, 2, 2], 2]},
        {"div_big": [2000, 1500, [8000, 1, 1], 3]}, {"div_big": [1200, 3000, [10, 4, 3], 4]},
        {"div_big": [5000, 5000, [10, 2, 1], 5]}, {"div_big": [160000, 1000, [16000, 2, 1], 6]},
        {"join_many": {"fmt": [16000, 2, 1], "sep": 2, "count": 300, "bad": None, "attempts": 1}},
        {"join_many": {"fmt": [16000, 2, 1], "sep": 2, "count": 300, "bad": 0, "attempts": 8}},
        {"join_many": {"fmt": [8000, 2, 2], "sep": 1, "count": 450, "bad": 2, "attempts": 8}},
        {"join_many": {"fmt": [8000, 1, 2], "sep": 0, "count": 600, "bad": 1, "attempts": 8}},
    ]


def jobs(tier, seed):
    b = BOUNDS[tier]
    out = [{"name": f"grid-{sr}", "kind": "grid", "sr": sr} for sr in GRID_SR]
    out += [{"name": f"big-{i}", "kind": "big", "seed": seed * 1000 + 500 + i, "n": 12 if tier == "quick" else 150} for i in range(4)]
    out += [{"name": f"sm-{i}", "kind": "sm", "seed": seed * 1000 + i, "n": b["n"], "steps": b["steps"]} for i in range(16)]
    return out


def run_job(job, rec):
    mod = sys.modules[__name__]
    if job["kind"] == "grid":
        from ..common import run_cases

        run_cases(mod, ({"grid_fmt": [job["sr"], sw, ch]} for sw in GRID_SW for ch in GRID_CH), rec)
    elif job["kind"] == "big":
        from ..common import hyp_run

        hyp_run(mod, big_case(), rec, job["seed"], job["n"])
    else:
        hyp_run_machine(mod, AlgebraMachine, rec, job["seed"], job["n"], job["steps"])


def extra_coverage(tier):
    return {"exhaustive_part": f"every ordered pair of formats from rates {GRID_SR} x widths {GRID_SW} x channel counts {GRID_CH} "
                               "(6561 pairs) for +, join, sum and ==: error / inequality iff the formats differ"}
