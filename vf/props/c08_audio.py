"""Audio half of C08: split() is lazy and pulls no more than the deciding window."""

from hypothesis import strategies as st

from .. import audio
from ..common import HarnessError, Violation, import_auditok
from ..oracles import ref_tokens
from .c05 import expected_regions

import_auditok()
import auditok  # noqa: E402
from auditok.io import AudioSource  # noqa: E402


class CountingSource(AudioSource):
    def __init__(self, data, sr, sw, ch):
        super().__init__(sr, sw, ch)
        self._d = data
        self._bps = sw * ch
        self._pos = 0
        self._open = False
        self.samples_out = 0
        self.reads = 0
        self.none_returns = 0

    def is_open(self):
        return self._open

    def open(self):
        self._open = True

    def close(self):
        self._open = False

    def read(self, size):
        self.reads += 1
        chunk = self._d[self._pos: self._pos + size * self._bps]
        if not chunk:
            self.none_returns += 1
            return None
        self._pos += len(chunk)
        self.samples_out += len(chunk) // self._bps
        return chunk


def check_audio(case, rec_):
    rec, win = case["audio"], case["win"]
    via_reader = case.get("via_reader", False)
    data, thr = audio.synth(rec)
    B, sr = rec["B"], rec["sr"]
    aw = audio.window_arg(B, sr)
    # for an AudioReader input the window is the reader's block duration B/sr
    mind, maxd, sild = audio.split_durations(win, (B / sr) if via_reader else aw)
    kmin, kmax, ksil = win[:3]
    N = len(data) // (rec["sw"] * rec["ch"])
    src = CountingSource(data, sr, rec["sw"], rec["ch"])
    kw = dict(min_dur=mind, max_dur=maxd, max_silence=sild, drop_trailing_silence=win[3],
              strict_min_dur=win[4], energy_threshold=thr, use_channel=rec.get("uc"))
    overlap = bool(case.get("overlap")) and via_reader and B % 2 == 0 and not rec.get("thr0")
    if overlap:
        inp = auditok.AudioReader(src, block_dur=aw, hop_dur=(B // 2) / sr)
    elif via_reader:
        inp = auditok.AudioReader(src, block_dur=aw)
    else:
        inp = src
        kw["analysis_window"] = aw
    gen = auditok.split(inp, **kw)
    if src.reads or src.samples_out:
        raise Violation(f"split() read {src.samples_out} samples before the first next()", case)
    _dec, exp = expected_regions(data, rec, win, thr)
    H = B
    if overlap:
        # windows overlap by half; decisions from the exact energy of each overlapping window
        from .. import oracles

        H = B // 2
        bps = rec["sw"] * rec["ch"]
        spans, _V = oracles.block_model(N, B, H, None)
        dec = []
        for a, b in spans:
            e = float(oracles.energy_db(data[a * bps: b * bps], rec["sw"], rec["ch"], rec.get("uc")))
            if abs(e - thr) < 1.0:
                raise HarnessError("overlapping window too close to the threshold")
            dec.append(e >= thr)
        exp = ref_tokens(dec, kmin, kmax, ksil, win[4], win[3])
    got = []
    classes = {"audio_lazy"} | ({"audio_overlapping_reader"} if overlap else set())
    early = False
    for r in gen:
        i = len(got)
        got.append(r)
        if i >= len(exp):
            break
        s, e = exp[i]
        if round(r.start * sr) != s * B:
            # (start = start window x block duration, also for overlapping windows)
            raise Violation(f"region {i} starts at sample {round(r.start * sr)}, expected {s * B}", case)
        last = e if (e - s + 1) == kmax else (e + ksil + 1)  # index of the deciding window
        bound = B + last * H
        if src.samples_out > min(bound, N):
            raise Violation(
                f"region {i} (windows {s}..{e}) yielded after pulling {src.samples_out} samples; "
                f"the deciding window ends at sample {min(bound, N)}", case)
        if src.samples_out <= N - 2 * B:
            early = True
    if len(got) != len(exp):
        raise Violation(f"{len(got)} regions, expected {len(exp)}", case)
    if src.none_returns > 1:
        raise Violation(f"end of stream requested {src.none_returns} times from the source", case)
    rec_.note(case, early, classes, out=[[s, e] for s, e in exp])


def explicit_cases():
    base = {"sr": 100, "sw": 2, "ch": 2, "B": 2, "pat": "0111011100011000", "tail": [1, 0], "al": 500, "aq": 1, "salt": 9, "uc": None}
    return [
        {"audio": base, "win": [2, 4, 1, False, False], "via_reader": False},
        {"audio": base, "win": [2, 4, 1, True, True], "via_reader": True},
        {"audio": base, "win": [2, 4, 1, False, False], "via_reader": True, "overlap": True},
    ]


@st.composite
def strategy(draw):
    c = draw(audio.audio_case(maxwin=40, maxB=6))
    c["via_reader"] = draw(st.booleans())
    c["overlap"] = draw(st.booleans())
    return c
