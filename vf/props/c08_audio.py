"""Audio half of C08: split() is lazy and pulls no more than the deciding window."""

from hypothesis import strategies as st

from .. import audio
from ..common import HarnessError, Violation, import_auditok
from ..oracles import ref_tokens
from .c05 import expected_regions

import_auditok()
import auditok  # noqa: E402
from auditok.io import AudioSource  # noqa: E402


class CountingSource(AudioSource):
    def __init__(self, data, sr, sw, ch):
        super().__init__(sr, sw, ch)
        self._d = data
        self._bps = sw * ch
        self._pos = 0
        self._open = False
        self.samples_out = 0
        self.reads = 0
        self.none_returns = 0

    def is_open(self):
        return self._open

    def open(self):
        self._open = True

    def close(self):
        self._open = False

    def read(self, size):
        self.reads += 1
        chunk = self._d[self._pos: self._pos + size * self._bps]
        if not chunk:
            self.none_returns += 1
            return None
        self._pos += len(chunk)
        self.samples_out += len(chunk) // self._bps
        return chunk


def check_audio(case, rec_):
    rec, win = case["audio"], case["win"]
    via_reader = case.get("via_reader", False)
    data, thr = audio.synth(rec)
    B, sr = rec["B"], rec["sr"]
    aw = audio.window_arg(B, sr)
    # for an AudioReader input the window is the reader's block duration B/sr
    mind, maxd, sild = audio.split_durations(win, (B / sr) if via_reader else aw)
    kmin, kmax, ksil = win[:3]
    N = len(data) // (rec["sw"] * rec["ch"])
    if case.get("fifo"):
        return check_fifo(case, rec_, data, thr, aw, mind, maxd, sild)
    src = CountingSource(data, sr, rec["sw"], rec["ch"])
    limit = None
    if case.get("mr") is not None and not via_reader:
        # max_read that is not a whole number of windows: "never more" also holds for the last, partial one
        from .c10 import resolve_max_read

        mr, limit = resolve_max_read({"mr": [min(case["mr"][0], N), case["mr"][1]], "sr": sr})
        if mr is None:
            limit = None
    kw = dict(min_dur=mind, max_dur=maxd, max_silence=sild, drop_trailing_silence=win[3],
              strict_min_dur=win[4], energy_threshold=thr, use_channel=rec.get("uc"))
    overlap = bool(case.get("overlap")) and via_reader and B % 2 == 0 and not rec.get("thr0")
    if overlap:
        inp = auditok.AudioReader(src, block_dur=aw, hop_dur=(B // 2) / sr)
    elif via_reader:
        inp = auditok.AudioReader(src, block_dur=aw)
    else:
        inp = src
        kw["analysis_window"] = aw
        if limit is not None:
            kw["mr" if case["mr"][0] % 2 else "max_read"] = mr
            data = data[: limit * rec["sw"] * rec["ch"]]
            N = min(N, limit)
    gen = auditok.split(inp, **kw)
    if src.reads or src.samples_out:
        raise Violation(f"split() read {src.samples_out} samples before the first next()", case)
    _dec, exp = expected_regions(data, rec, win, thr)
    H = B
    if overlap:
        # windows overlap by half; decisions from the exact energy of each overlapping window
        from .. import oracles

        H = B // 2
        bps = rec["sw"] * rec["ch"]
        spans, _V = oracles.block_model(N, B, H, None)
        dec = []
        for a, b in spans:
            e = float(oracles.energy_db(data[a * bps: b * bps], rec["sw"], rec["ch"], rec.get("uc")))
            if abs(e - thr) < 1.0:
                raise HarnessError("overlapping window too close to the threshold")
            dec.append(e >= thr)
        exp = ref_tokens(dec, kmin, kmax, ksil, win[4], win[3])
    got = []
    classes = {"audio_lazy"} | ({"audio_overlapping_reader"} if overlap else set())
    if limit is not None:
        classes.add("audio_max_read")
        if limit % B:
            classes.add("audio_max_read_ends_inside_a_window")
    early = False
    for r in gen:
        i = len(got)
        got.append(r)
        if i >= len(exp):
            break
        s, e = exp[i]
        if round(r.start * sr) != s * B:
            # (start = start window x block duration, also for overlapping windows)
            raise Violation(f"region {i} starts at sample {round(r.start * sr)}, expected {s * B}", case)
        last = e if (e - s + 1) == kmax else (e + ksil + 1)  # index of the deciding window
        bound = B + last * H
        if src.samples_out > min(bound, N):
            raise Violation(
                f"region {i} (windows {s}..{e}) yielded after pulling {src.samples_out} samples; "
                f"the deciding window ends at sample {min(bound, N)}", case)
        if src.samples_out <= N - 2 * B:
            early = True
    if len(got) != len(exp):
        raise Violation(f"{len(got)} regions, expected {len(exp)}", case)
    if src.samples_out > N:
        raise Violation(f"{src.samples_out} samples pulled from the source, max_read allows {N}", case)
    if src.none_returns > 1:
        raise Violation(f"end of stream requested {src.none_returns} times from the source", case)
    rec_.note(case, early, classes, out=[[s, e] for s, e in exp])


def check_fifo(case, rec_, data, thr, aw, mind, maxd, sild):
    """split(<path of a named pipe>, large_file=True): the file is produced while it is read.  The
    feeder writes a piece only once the pipe has been drained, so at any time it has written at most
    one piece more than the reader has taken out, and the reader takes out (buffering included) at
    most what is there: when region i comes out, the bytes written are bounded by the end of its
    deciding window plus two pieces.  No clock is involved in the verdict."""
    import os

    from .c10 import _FifoFeeder, _ctr

    rec, win = case["audio"], case["win"]
    kmin, kmax, ksil = win[:3]
    B, sr, bps = rec["B"], rec["sr"], rec["sw"] * rec["ch"]
    N = len(data) // bps
    _dec, exp = expected_regions(data, rec, win, thr)
    _ctr[0] += 1
    path = os.path.join(os.environ.get("VF_TMPROOT", "/tmp"), f"c08fifo-{os.getpid()}-{_ctr[0]}")
    piece = max(B * bps - 1, 1)
    feeder = _FifoFeeder(path, data, [piece])
    got, early = [], False
    try:
        gen = auditok.split(path, min_dur=mind, max_dur=maxd, max_silence=sild, drop_trailing_silence=win[3],
                            strict_min_dur=win[4], energy_threshold=thr, use_channel=rec.get("uc"),
                            analysis_window=aw, large_file=True, audio_format="raw",
                            sr=sr, sw=rec["sw"], ch=rec["ch"])
        for r in gen:
            written = feeder.written
            i = len(got)
            got.append(r)
            if i >= len(exp):
                break
            s, e = exp[i]
            last = e if (e - s + 1) == kmax else (e + ksil + 1)
            bound = min((last + 1) * B, N) * bps
            if written > bound + 2 * piece:
                raise Violation(
                    f"region {i} (windows {s}..{e}) came out of a named pipe only after {written} bytes had been "
                    f"written to it; its deciding window ends at byte {bound} (pieces of {piece} bytes, "
                    f"each written once the pipe is empty; {len(data)} bytes in all)", case)
            if bound + 4 * piece <= len(data):
                early = True
        if [(round(r.start * sr), len(r)) for r in got] != [(s * B, min((e + 1) * B, N) - s * B) for s, e in exp]:
            raise Violation(f"regions from the named pipe differ from the expected ones {exp}", case)
    finally:
        feeder.finish()
        try:
            os.remove(path)
        except OSError:
            pass
    rec_.note(case, early, {"audio_lazy_named_pipe"}, out=[[s, e] for s, e in exp])


def explicit_cases():
    base = {"sr": 100, "sw": 2, "ch": 2, "B": 2, "pat": "0111011100011000", "tail": [1, 0], "al": 500, "aq": 1, "salt": 9, "uc": None}
    return [
        {"audio": base, "win": [2, 4, 1, False, False], "via_reader": False},
        {"audio": base, "win": [2, 4, 1, True, True], "via_reader": True},
        {"audio": base, "win": [2, 4, 1, False, False], "via_reader": True, "overlap": True},
        {"audio": base, "win": [2, 4, 1, False, False], "via_reader": False, "mr": [29, 0]},
        {"audio": base, "win": [2, 4, 1, True, False], "via_reader": False, "mr": [15, 0.25]},
        {"audio": base, "win": [2, 4, 1, False, False], "via_reader": False, "fifo": True},
    ]


@st.composite
def strategy(draw):
    c = draw(audio.audio_case(maxwin=40, maxB=6))
    c["via_reader"] = draw(st.booleans())
    c["overlap"] = draw(st.booleans())
    if not c["via_reader"]:
        from ..gen import rarely

        if draw(st.booleans()):
            c["mr"] = [draw(st.integers(1, 250)), draw(st.sampled_from([0, 0, 0.25, 0.75]))]
        elif draw(rarely(6)):
            c["fifo"] = True
    return c
