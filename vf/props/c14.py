"""C14 - stopping at any moment yields a consistent prefix and a clean
shutdown (stop injected at every scheduling step of explored schedules)."""

import sys

from hypothesis import strategies as st

from .. import audio, pipeline
from ..common import Violation, hyp_run, import_auditok
from ..oracles import stretches
from . import c12, c13

import_auditok()

ID = "C14"
LEVEL = "fault_enumeration"
RULE = (
    "Cases as C12/C13 (recording x split parameters x observers x optional stream saver x schedule) plus a stop point: "
    "the schedule is first run to completion without a stop to measure its length T in scheduling steps, then run again "
    "with the harness main thread calling stop_all() when the step counter reaches k = floor(f*T), f drawn from [0,1.15] "
    "over a source that is either finite or, like a microphone, goes on for ever with digital silence after the recording, so only the stop can end the run (so every yield point of the run - before the first read, between any two reads, after the last read, after "
    "everything finished - is a candidate stop point); the remaining steps follow the rest of the choice list, then the "
    "fair policy. Oracle: let R be the blocks the harness source handed out before it was closed; every observer's log == "
    "detections of split(b''.join(R)) with the same parameters (ids 1.., nothing lost, duplicated, reordered or from "
    "unread audio); the saved stream is a well-formed wav whose frames == b''.join(R); stop_all() returns; every thread "
    "exits (no deadlock, step bound as C12). Non-trivial = 0 < |R| < all blocks and the read prefix ends inside an "
    "extended stretch of activity (an event was open when the stop arrived)."
)
MUST_HIT = ["stop_before_first_read", "stop_after_last_read_before_drain", "stop_while_detection_open",
            "stop_mid_stream", "stop_with_stream_saver", "stop_after_everything_finished", "endless_source",
            "stop_requested_from_a_helper_thread"]
ASSUMPTIONS = c12.ASSUMPTIONS + ["the stop is delivered through stop_all() from the main thread (the path the CLI's KeyboardInterrupt handler takes); two free-running members call it from a helper thread"]
BOUNDS = {"quick": dict(n=200, maxwin=24), "thorough": dict(n=1200, maxwin=40)}


def check_sigint(case, rec):
    """Thorough tier: a real `python -m auditok.cmdline - -O file` process fed
    through a pipe by a slow writer and interrupted with SIGINT.  Oracle is
    schedule-free: the printed detections must be split() of the audio found in
    the -O file, exit status 0.  Wall-clock dependent: anything that looks like
    a timing accident (interrupt before the handler exists, timeout) is counted
    as inconclusive, never as a violation."""
    import os
    import signal
    import subprocess
    import threading
    import time

    import auditok

    from ..common import REPO, tmpdir

    recd = case["audio"]
    data, thr = audio.synth(recd)
    sr, sw, ch, B = recd["sr"], recd["sw"], recd["ch"], recd["B"]
    w = B / sr
    kmin, kmax, ksil, drop, strict = case["win"]
    mind, maxd, sild = audio.split_durations(case["win"], w)
    out_path = os.path.join(tmpdir(), f"sigint_{os.getpid()}_{case['delay']}.wav")
    argv = [sys.executable, "-m", "auditok.cmdline", "-", "-r", str(sr), "-c", str(ch), "-w", str(sw),
            "-a", repr(w), "-n", repr(mind), "-m", repr(maxd), "-s", repr(sild), "-e", repr(thr), "-O", out_path]
    if drop:
        argv.append("-d")
    if strict:
        argv.append("-R")
    env = dict(os.environ, PYTHONPATH=REPO, MPLBACKEND="Agg")
    # (unbuffered stdin: every piece goes out in one write(2), and closing the pipe from the main thread cannot
    # dead-lock with a feeder thread blocked in a buffered write)
    p = subprocess.Popen(argv, stdin=subprocess.PIPE, stdout=subprocess.PIPE, stderr=subprocess.PIPE, env=env, cwd=REPO, bufsize=0)
    bps = sw * ch
    # pieces that do not line up with windows but are whole samples: wherever the stream is cut, what the program
    # has received is audio (a stray half sample at the end of the stream is not)
    blk = B * bps * 3 + bps

    def feed():
        # a live source: nothing before the program is up, then the recording in
        # small pieces, then digital silence for ever (only the interrupt ends it)
        try:
            t1 = time.time()
            while not os.path.exists(out_path) and time.time() - t1 < 60:
                time.sleep(0.005)
            i = 0
            while time.time() - t1 < 100:
                piece = data[i: i + blk]
                if len(piece) < blk:
                    piece = piece + bytes(blk - len(piece))
                p.stdin.write(piece)
                i += blk
                time.sleep(0.002)
        except (OSError, ValueError):
            pass

    th = threading.Thread(target=feed, daemon=True)
    th.start()
    t0 = time.time()
    while not os.path.exists(out_path) and time.time() - t0 < 60 and p.poll() is None:
        time.sleep(0.01)
    time.sleep(case["delay"] / 1000)
    p.send_signal(signal.SIGINT)
    try:
        so, se = p.communicate(timeout=60)
    except subprocess.TimeoutExpired:
        p.kill()
        rec.extra["sigint_inconclusive_timeout"] += 1
        return
    finally:
        try:
            p.stdin.close()
        except OSError:
            pass
    try:
        if p.returncode != 0:
            if b"KeyboardInterrupt" in se and b"stop_all" not in se:
                rec.extra["sigint_inconclusive_before_handler"] += 1
                return
            raise Violation(f"interrupted command line exited with status {p.returncode}: {se[-300:]!r}", case)
        try:
            params, frames = pipeline.read_wav(out_path)
        except Exception as exc:  # noqa: BLE001
            raise Violation(f"-O file after SIGINT is not a valid wav: {exc}", case)
        if params != (sr, sw, ch):
            raise Violation(f"-O header {params}", case)
        if frames != (data + bytes(max(len(frames) - len(data), 0)))[: len(frames)]:
            raise Violation("-O file is not a prefix of the audio fed to stdin", case)
        reader = auditok.AudioReader(frames, block_dur=w, sampling_rate=sr, sample_width=sw, channels=ch)
        regs = list(auditok.split(reader, min_dur=mind, max_dur=maxd, max_silence=sild, drop_trailing_silence=drop,
                                  strict_min_dur=strict, energy_threshold=thr, use_channel=None))
        want = "".join(f"{i} {r.start:.3f} {r.end:.3f}\n" for i, r in enumerate(regs, 1))
        got = so.decode()
        nblocks = len(frames) // (B * bps)
        rec.note(case, 0 < len(frames) < len(data) and bool(regs), {"sigint_subprocess"},
                 out={"read_windows": nblocks, "printed": got.count("\n")})
        if got != want:
            raise Violation(f"after SIGINT printed {got!r}, but split() of the {nblocks} windows saved gives {want!r}", case)
    finally:
        try:
            os.remove(out_path)
        except OSError:
            pass


def check_free_stop(case, rec):
    """Free-running threads, endless source, the stop requested from a helper thread after a few milliseconds."""
    run = pipeline.run_pipeline(case, scheduled=False, stop_step=case["free_stop"], endless=True)
    try:
        if getattr(run, "stop_error", None) is not None:
            raise Violation(f"stop_all() called from a thread other than the main one raised {run.stop_error!r}", case)
        if not getattr(run, "stop_all_returned", False):
            raise Violation("stop_all() did not return", case)
        if run.alive:
            raise Violation(f"threads still alive after the stop: {run.alive}", case)
        R = list(run.src.handed)
        exp = pipeline.expected_detections(b"".join(R), case, run.thr)
        c12.judge_observers(run, case, exp)
        c12.judge_files(run, case, exp, R)
        rec.note(case, True, {"stop_requested_from_a_helper_thread"}, out={"blocks_read": len(R), "detections": len(exp)})
    finally:
        pipeline.cleanup(run)


def check_case(case, rec):
    if case.get("t") == "sigint":
        return check_sigint(case, rec)
    if case.get("free_stop") is not None:
        return check_free_stop(case, rec)
    base = pipeline.run_pipeline(case, scheduled=True)
    try:
        c12.judge_threads(base, case)
        T = base.sched.steps
        total_blocks = len(base.src.handed)
    finally:
        pipeline.cleanup(base)
    k = int(case["stop"] * T)
    run = pipeline.run_pipeline(case, scheduled=True, stop_step=k, endless=bool(case.get("endless")))
    try:
        c12.judge_threads(run, case)
        if not getattr(run, "stop_all_returned", False):
            raise Violation("stop_all() did not return", case)
        R = list(run.src.handed)
        prefix = b"".join(R)
        exp = pipeline.expected_detections(prefix, case, run.thr)
        c12.judge_observers(run, case, exp)
        c12.judge_files(run, case, exp, R)
        classes = set()
        nblocks = len(R)
        if nblocks == 0 and not run.tokenizer_done_at_stop:
            classes.add("stop_before_first_read")
        if 0 < nblocks < total_blocks:
            classes.add("stop_mid_stream")
        if run.tokenizer_done_at_stop:
            classes.add("stop_after_everything_finished")
        if nblocks == total_blocks and run.recs and any(n < len(exp) for n in run.logs_at_stop):
            classes.add("stop_after_last_read_before_drain")
        if case.get("saver"):
            classes.add("stop_with_stream_saver")
        if case.get("endless"):
            classes.add("endless_source")
        if case.get("logger"):
            classes.add("stop_with_logger" + ("_zero_detections" if not exp else ""))
            if case.get("src_kind", "harness") != "harness" and 0 < nblocks < total_blocks:
                classes.add("stop_with_logger_lazy_file_source")
        # was an event open when the stop arrived?
        # labels only (the oracle is split() of the prefix): an endless source pads the last partial
        # window with silence, which may bring its energy near the threshold - no guard band here
        dec = audio.decisions(prefix, case["audio"], run.thr, guard=False)
        st_ = stretches(dec, case["win"][2])
        open_event = bool(st_) and st_[-1][2] == len(dec) - 1
        if open_event and 0 < nblocks < total_blocks:
            classes.add("stop_while_detection_open")
        rec.note(case, open_event and 0 < nblocks < total_blocks, classes,
                 out={"stop_step": k, "of": T, "blocks_read": nblocks, "of_blocks": total_blocks, "detections": len(exp)})
    finally:
        pipeline.cleanup(run)


def explicit_cases():
    a = {"sr": 100, "sw": 2, "ch": 2, "B": 2, "pat": "0111011100011110", "tail": [1, 0], "al": 500, "aq": 1, "salt": 9, "uc": None}
    out = []
    for f in (0.0, 0.1, 0.3, 0.5, 0.7, 0.9, 0.97, 1.1):
        out.append({"audio": a, "win": [2, 6, 1, False, False], "saver": {"cache": 0.04}, "observers": ["rec", "rec", "print"],
                    "choices": [3, 0, 4, 1, 2] * 30, "stop": f, "endless": f in (0.3, 0.9, 1.1)})
        out.append({"audio": a, "win": [1, 3, 0, True, False], "saver": None, "observers": ["rec", "joiner"],
                    "join_sil": [2, 0], "choices": [], "stop": f})
    out.append({"audio": a, "win": [2, 6, 1, False, False], "saver": {"cache": 0.04}, "observers": ["rec", "print"], "choices": [],
                "free_stop": 0.02, "stop_from_thread": True})
    out.append({"audio": a, "win": [1, 3, 0, False, False], "saver": None, "observers": ["rec", "rec"], "choices": [],
                "free_stop": 0.0, "stop_from_thread": True})
    out.append({"audio": a, "win": [2, 6, 1, False, False], "saver": {"cache": 0.04, "ext": "", "fmt": "WAV"}, "observers": ["rec"],
                "choices": [3, 0, 1, 2] * 20, "stop": 0.5})
    out.append({"audio": a, "win": [2, 6, 1, False, False], "saver": {"cache": 0.04, "ext": ".wav", "fmt": "Wav"}, "observers": ["rec"],
                "choices": [3, 0, 1, 2] * 20, "stop": 0.8, "endless": True})
    return out


@st.composite
def strategy(draw, maxwin):
    c = draw(c13.strategy(maxwin) if draw(st.booleans()) else c12.strategy(maxwin))
    c["endless"] = draw(st.booleans())
    c.pop("overlap", None)  # (what an overlapping reader keeps buffered at the stop is not part of "the stream read")
    c["stop"] = draw(st.one_of(st.floats(0, 1.15, allow_nan=False), st.sampled_from([0.0, 0.02, 0.05, 0.95, 1.0, 1.1])))
    return c


@st.composite
def sigint_strategy(draw):
    from ..gen import pattern as tokpat

    win = draw(audio.split_windows(6))
    pat = draw(tokpat([win[0], win[1], win[2], 0, 0, 0], 60))
    reps = draw(st.integers(20, 40))
    recd = {"sr": 1000, "sw": 2, "ch": 1, "B": 10, "pat": (pat + "0" * (win[2] + 1)) * reps, "tail": [0, 0],
            "al": 800, "aq": 1, "salt": draw(st.integers(0, 1000)), "uc": None}
    return {"t": "sigint", "audio": recd, "win": win, "delay": draw(st.integers(0, 1500))}


def jobs(tier, seed):
    b = BOUNDS[tier]
    out = [{"name": f"hyp-{i}", "kind": "hyp", "seed": seed * 1000 + i, "n": b["n"], "maxwin": b["maxwin"]} for i in range(16)]
    if tier == "thorough":
        out += [{"name": f"sigint-{i}", "kind": "sigint", "seed": seed * 1000 + 200 + i, "n": 6} for i in range(4)]
    return out


def run_job(job, rec):
    if job.get("kind") == "sigint":
        hyp_run(sys.modules[__name__], sigint_strategy(), rec, job["seed"], job["n"], shrink=False)
    else:
        hyp_run(sys.modules[__name__], strategy(job["maxwin"]), rec, job["seed"], job["n"])
