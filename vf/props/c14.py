"""C14 - stopping at any moment yields a consistent prefix and a clean
shutdown (stop injected at every scheduling step of explored schedules)."""

import sys

from hypothesis import strategies as st

from .. import audio, pipeline
from ..common import Violation, hyp_run, import_auditok
from ..oracles import stretches
from . import c12, c13

import_auditok()

ID = "C14"
LEVEL = "fault_enumeration"
RULE = (
    "Cases as C12/C13 (recording x split parameters x observers x optional stream saver x schedule) plus a stop point: "
    "the schedule is first run to completion without a stop to measure its length T in scheduling steps, then run again "
    "with the harness main thread calling stop_all() when the step counter reaches k = floor(f*T), f drawn from [0,1.15] "
    "over a source that is either finite or, like a microphone, goes on for ever with digital silence after the recording, so only the stop can end the run (so every yield point of the run - before the first read, between any two reads, after the last read, after "
    "everything finished - is a candidate stop point); the remaining steps follow the rest of the choice list, then the "
    "fair policy. Oracle: let R be the blocks the harness source handed out before it was closed; every observer's log == "
    "detections of split(b''.join(R)) with the same parameters (ids 1.., nothing lost, duplicated, reordered or from "
    "unread audio); the saved stream is a well-formed wav whose frames == b''.join(R); stop_all() returns; every thread "
    "exits (no deadlock, step bound as C12). Non-trivial = 0 < |R| < all blocks and the read prefix ends inside an "
    "extended stretch of activity (an event was open when the stop arrived)."
)
MUST_HIT = ["stop_before_first_read", "stop_after_last_read_before_drain", "stop_while_detection_open",
            "stop_mid_stream", "stop_with_stream_saver", "stop_after_everything_finished", "endless_source"]
ASSUMPTIONS = c12.ASSUMPTIONS + ["the stop is delivered through stop_all() from the main thread (the path the CLI's KeyboardInterrupt handler takes)"]
BOUNDS = {"quick": dict(n=200, maxwin=24), "thorough": dict(n=1200, maxwin=40)}


def check_case(case, rec):
    base = pipeline.run_pipeline(case, scheduled=True)
    try:
        c12.judge_threads(base, case)
        T = base.sched.steps
        total_blocks = len(base.src.handed)
    finally:
        pipeline.cleanup(base)
    k = int(case["stop"] * T)
    run = pipeline.run_pipeline(case, scheduled=True, stop_step=k, endless=bool(case.get("endless")))
    try:
        c12.judge_threads(run, case)
        if not getattr(run, "stop_all_returned", False):
            raise Violation("stop_all() did not return", case)
        R = list(run.src.handed)
        prefix = b"".join(R)
        exp = pipeline.expected_detections(prefix, case, run.thr)
        c12.judge_observers(run, case, exp)
        c12.judge_files(run, case, exp, R)
        if run.src.is_open():
            raise Violation("source left open after stop_all()", case)
        classes = set()
        nblocks = len(R)
        if nblocks == 0 and not run.tokenizer_done_at_stop:
            classes.add("stop_before_first_read")
        if 0 < nblocks < total_blocks:
            classes.add("stop_mid_stream")
        if run.tokenizer_done_at_stop:
            classes.add("stop_after_everything_finished")
        if nblocks == total_blocks and run.recs and any(n < len(exp) for n in run.logs_at_stop):
            classes.add("stop_after_last_read_before_drain")
        if case.get("saver"):
            classes.add("stop_with_stream_saver")
        if case.get("endless"):
            classes.add("endless_source")
        # was an event open when the stop arrived?
        dec = audio.decisions(prefix, case["audio"], run.thr)
        st_ = stretches(dec, case["win"][2])
        open_event = bool(st_) and st_[-1][2] == len(dec) - 1
        if open_event and 0 < nblocks < total_blocks:
            classes.add("stop_while_detection_open")
        rec.note(case, open_event and 0 < nblocks < total_blocks, classes,
                 out={"stop_step": k, "of": T, "blocks_read": nblocks, "of_blocks": total_blocks, "detections": len(exp)})
    finally:
        pipeline.cleanup(run)


def explicit_cases():
    a = {"sr": 100, "sw": 2, "ch": 2, "B": 2, "pat": "0111011100011110", "tail": [1, 0], "al": 500, "aq": 1, "salt": 9, "uc": None}
    out = []
    for f in (0.0, 0.1, 0.3, 0.5, 0.7, 0.9, 0.97, 1.1):
        out.append({"audio": a, "win": [2, 6, 1, False, False], "saver": {"cache": 0.04}, "observers": ["rec", "rec", "print"],
                    "choices": [3, 0, 4, 1, 2] * 30, "stop": f, "endless": f in (0.3, 0.9, 1.1)})
        out.append({"audio": a, "win": [1, 3, 0, True, False], "saver": None, "observers": ["rec", "joiner"],
                    "join_sil": [2, 0], "choices": [], "stop": f})
    return out


@st.composite
def strategy(draw, maxwin):
    c = draw(c13.strategy(maxwin) if draw(st.booleans()) else c12.strategy(maxwin))
    c["endless"] = draw(st.booleans())
    c["stop"] = draw(st.one_of(st.floats(0, 1.15, allow_nan=False), st.sampled_from([0.0, 0.02, 0.05, 0.95, 1.0, 1.1])))
    return c


def jobs(tier, seed):
    b = BOUNDS[tier]
    return [{"name": f"hyp-{i}", "seed": seed * 1000 + i, "n": b["n"], "maxwin": b["maxwin"]} for i in range(16)]


def run_job(job, rec):
    hyp_run(sys.modules[__name__], strategy(job["maxwin"]), rec, job["seed"], job["n"])
