"""C04 - detection is complete: tokens == declarative greedy segmentation."""

from hypothesis import strategies as st

from .. import gen, tok
from ..common import Violation, hyp_run, run_cases
from ..oracles import ref_tokens, stretches

ID = "C04"
LEVEL = "exploration"
RULE = (
    "Cases = validity pattern x (min,max,sil) x 4 modes with init_min in {-1,0,1} "
    "(x frame kind x delivery mode). Exhaustive part: every pattern of length <= L "
    "x every accepted tuple with max_length <= M (L, M in 'exhaustive_part'); generated "
    "part: Hypothesis run-length/iid patterns up to 'max_stream_len' frames with "
    "max_length up to 'max_max_length'. Oracle: token spans == reference greedy "
    "segmentation written from the statement, plus the three 'consequently' clauses "
    "checked directly on the output. Non-trivial = the stream holds >= 1 stretch and "
    "(a token cut at max_length, or a final partial piece, or the stream ends inside "
    "an extended stretch); distinct = distinct canonical JSON of the case."
)
RULE += (
    ' Exhaustive reuse part: every accepted parameter tuple with max_length <= 3 (thorough: 4) x every earlier stream of 1..5 (6) frames x how it was left (list run, generator unstarted / advanced one token and abandoned, two generators requested up front) x every later stream of 1..4 (5) frames: the used tokenizer must satisfy the property like a fresh one.'
)
MUST_HIT = [
    "remainder_delivered",
    "partial_rejected",
    "allsilence_partial_discarded",
    "event_at_eos",
    "gap_sil_plus_1",
    "cut",
]
ASSUMPTIONS = [
    "frame kind 'stateful': a validator whose k-th answer is the k-th bit of the pattern (a validator with a memory, e.g. an adaptive threshold) - meaningful only if the tokenizer consults the validator once per frame, in stream order",
    "reference segmentation in vf/oracles.py is a faithful reading of the C04 statement",
    "'every valid frame of a stretch >= min_length lies in a token' is checked in strict mode only for stretches that are not cut (the statement's own remainder rule withholds a short remainder there)",
]

BOUNDS = {
    "quick": dict(L=11, M=4, hyp_examples=1500, maxlen=64, maxmax=8),
    "thorough": dict(L=15, M=4, hyp_examples=30000, maxlen=300, maxmax=24),
}


def check_case(case, rec):
    pat = case["pat"]
    mn, mx, sil, imin, _isil, mode = case["p"]
    valid = [c == "1" for c in pat]
    strict = bool(mode & 2)
    drop = bool(mode & 4)
    _frames, toks = tok.run_case(case)
    got = tok.spans(toks)
    info = set()
    exp = ref_tokens(valid, mn, mx, sil, strict, drop, info)
    nt = "stretch" in info and bool(
        info & {"cut", "partial", "stream_ends_in_stretch", "allsilence_partial_discarded"}
    )
    rec.note(case, nt, info, out=got)
    if got != exp:
        raise Violation(f"tokens {got} != greedy segmentation {exp}", case)
    # the 'consequently' clauses, straight on the output
    covered = set()
    for s, e in got:
        covered.update(range(s, e + 1))
    for f, last, ext in stretches(valid, sil):
        inside = [(s, e) for s, e in got if f <= s <= ext]
        if inside and min(s for s, _ in inside) != f:
            raise Violation(
                f"first token of stretch [{f},{last}] starts at {inside[0][0]}", case
            )
        long_enough = (last - f + 1) >= mn
        uncut = (ext - f + 1) < mx
        if long_enough and (not strict or uncut):
            lost = [i for i in range(f, last + 1) if valid[i] and i not in covered]
            if lost:
                raise Violation(
                    f"valid frames {lost} of stretch [{f},{last}] (>= min_length) in no token",
                    case,
                )
    exts = [(f, ext) for f, _l, ext in stretches(valid, sil)]
    for s, e in got:
        if not any(f <= s and e <= ext for f, ext in exts):
            raise Violation(f"token ({s},{e}) reaches outside every extended stretch", case)


def explicit_cases():
    mk = lambda pat, p, kind="char", deliv="list": {  # noqa: E731
        "pat": pat, "p": p, "kind": kind, "deliv": deliv}
    return [
        # remainder delivered / rejected (docstring example of the class)
        mk("000111111000", [3, 4, 0, 0, 0, 0]),
        mk("000111111000", [3, 4, 0, 0, 0, 2]),
        # all-silence partial piece discarded, then a later short event (D1 shape)
        mk("1001", [2, 2, 1, 0, 0, 0]),
        mk("1111" + "0" * 52 + "10000", [3, 4, 1, 0, 0, 0]),
        mk("1010011", [3, 3, 1, 0, 0, 0]),
        # event ending exactly at end of stream; gap of exactly sil+1
        mk("0110011", [1, 5, 1, 0, 0, 4], "obj", "gen"),
        mk("110", [1, 3, 1, 1, 0, 6], "bytes", "cb"),
        mk("", [1, 1, 0, 0, 0, 0]),
    ]


def _exh_cases(n, lo, hi, M):
    params = list(gen.all_params(M, inits=((0, 0),)))
    for v in range(lo, hi):
        pat = format(v, f"0{n}b") if n else ""
        for k, p in enumerate(params):
            yield {
                "pat": pat,
                "p": p,
                "kind": tok.KINDS[(v + k) % len(tok.KINDS)],
                "deliv": tok.DELIVS[(v // 3 + k) % 3],
            }


def jobs(tier, seed):
    b = BOUNDS[tier]
    out = []
    for n in range(0, b["L"] + 1):
        total = 1 << n
        chunk = 1 << 7 if tier == "quick" else 1 << 9
        for lo in range(0, total, chunk):
            out.append(
                {"name": f"exh-n{n}-{lo}", "kind": "exh", "n": n, "lo": lo,
                 "hi": min(total, lo + chunk), "M": b["M"]}
            )
    out.sort(key=lambda j: -j["n"])
    for i in range(16):
        out.append(
            {"name": f"hyp-{i}", "kind": "hyp", "seed": seed * 1000 + i,
             "n": b["hyp_examples"], "maxlen": b["maxlen"], "maxmax": b["maxmax"]}
        )
    from ..tokjobs import reuse_jobs

    out = reuse_jobs(tier) + out  # (C04's population keeps init_min at its default: no init grid here)
    if tier == "thorough":
        out.insert(0, {"name": "atheris-empty-corpus", "kind": "fuzz", "seed": seed, "runs": 300000, "corpus": False})
        out.insert(0, {"name": "atheris-seeded-corpus", "kind": "fuzz", "seed": seed + 1, "runs": 300000, "corpus": True})
    return out


def run_fuzz(job, rec):
    """Coverage-guided campaign in a subprocess (libFuzzer owns the process).
    A crash artefact is decoded into a JSON case and judged again here."""
    import glob
    import os
    import subprocess
    import sys

    from ..common import DEPS, VERIF_DIR, checked, tmpdir
    from ..fuzz_tokenizer import decode

    mod = sys.modules[__name__]
    work = os.path.join(tmpdir(), job["name"])
    corpus = os.path.join(work, "corpus")
    os.makedirs(corpus, exist_ok=True)
    env = dict(os.environ, PYTHONPATH=DEPS + os.pathsep + os.environ.get("PYTHONPATH", ""))
    base = [sys.executable, "-m", "vf.fuzz_tokenizer"]
    if job["corpus"]:
        subprocess.run(base + ["--seed-corpus", corpus], cwd=VERIF_DIR, env=env, capture_output=True)
    r = subprocess.run(base + [f"-runs={job['runs']}", f"-seed={job['seed'] or 1}", "-max_len=70",
                               f"-artifact_prefix={work}/", corpus], cwd=VERIF_DIR, env=env,
                       capture_output=True, text=True)
    if "ATHERIS-UNAVAILABLE" in r.stdout:
        rec.extra["atheris_unavailable"] += 1
        return
    done = [ln for ln in r.stderr.splitlines() if ln.startswith("Done ")]
    rec.extra["atheris_executions"] += job["runs"] if done else 0
    rec.extra["atheris_corpus_files"] += len(os.listdir(corpus))
    for art in sorted(glob.glob(os.path.join(work, "crash-*"))):
        case = decode(open(art, "rb").read())
        try:
            checked(mod, case, rec)
        except Violation as v:
            rec.failures.append((v.case, v.msg))
            return
        rec.extra["atheris_crash_not_reproduced"] += 1


def run_job(job, rec):
    import sys

    mod = sys.modules[__name__]
    if job["kind"] == "fuzz":
        run_fuzz(job, rec)
    elif job["kind"] == "exh":
        run_cases(mod, _exh_cases(job["n"], job["lo"], job["hi"], job["M"]), rec)
    elif job["kind"] == "exh_reuse":
        from ..tokjobs import reuse_cases

        run_cases(mod, reuse_cases(job["shard"], job["nshards"], job["M"], job["Lpre"], job["Lmain"]), rec)
    else:
        strat = gen.tok_case(job["maxmax"], job["maxlen"], init="default")
        hyp_run(mod, strat, rec, job["seed"], job["n"])


def extra_coverage(tier):
    b = BOUNDS[tier]
    return {
        "exhaustive_part": f"all patterns of length 0..{b['L']} x all accepted (min,max,sil) with max_length<=%d x 4 modes, init_min=0" % b["M"],
        "max_stream_len": b["maxlen"],
        "max_max_length": b["maxmax"],
        "exhaustive": False,
    }


def optimized_cases():
    for n in range(0, 8):
        yield from _exh_cases(n, 0, 1 << n, 3)
