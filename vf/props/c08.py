"""C08 - online behaviour: bounded latency, lazy reading, prefix consistency,
mode equality, single end-of-stream read.  (split() laziness: see check_audio.)"""

import sys

from hypothesis import strategies as st

from .. import gen, tok
from ..common import Violation, hyp_run, run_cases

ID = "C08"
LEVEL = "exploration"
RULE = (
    "Tokenizer cases = pattern x accepted six-parameter tuple; every case is run in the three "
    "delivery modes over a read-counting source and, additionally, on EVERY prefix of the stream. "
    "Oracle: (i) at hand-over of token (s,e) (generator item received / callback invoked) the number "
    "of read() calls r satisfies r == e+1 for tokens of max_length frames, e+1 <= r <= e+max(sil,0)+2 "
    "otherwise, or r == n+1 when the stream ends before the deciding frame (end-of-stream flush); (ii) None is returned by the source exactly once and "
    "n+1 reads are made in total; (iii) list, generator and callback sequences are identical (same frame "
    "objects); (iv) for every prefix p: tokens(prefix) is a prefix of tokens(whole) except that its last "
    "token may be a same-start shorter version, in which case the prefix ends within max(sil,0) frames of "
    "it, and every token of the whole stream that the statement says is decided inside the prefix is "
    "present. Audio cases = synthesized recordings through split() over a sample-counting AudioSource: "
    "nothing is read before the first next(); when region i is yielded at most (e_i+silwin+2) windows "
    "have been pulled. Non-trivial = some token is handed over strictly before the end of the stream "
    "with >= 2 frames still unread."
)
RULE += (
    ' Audio half also: max_read ending inside a window (samples pulled from a counting source never exceed it) and split(<named pipe>, large_file=True) with a drain-synchronised writer: bytes written when region i comes out <= end of its deciding window + 2 pieces.'
)
MUST_HIT = ["prefix_cut_inside_token", "flush_shorter_token", "handed_before_eos", "audio_lazy", "audio_overlapping_reader",
            "long_stream_sampled_prefixes", "audio_max_read_ends_inside_a_window", "audio_lazy_named_pipe"]
ASSUMPTIONS = ["read-counting harness source (vf/tok.ListSource)"]

BOUNDS = {
    "quick": dict(L=9, M=3, hyp_examples=600, maxlen=48, maxmax=8, audio_examples=200),
    "thorough": dict(L=11, M=4, hyp_examples=4000, maxlen=120, maxmax=16, audio_examples=1500),
}
INITS = ((0, 0), (2, 1))


def _run(pat, p, deliv):
    frames, validator, source = tok.make_stream(pat, "obj")
    tk = tok.make_tokenizer(validator, p)
    at = []
    toks = tok.deliver(tk, source, deliv, on_token=lambda t: at.append(source.reads))
    return frames, source, toks, at


def check_case(case, rec):
    if "audio" in case:
        from . import c08_audio

        return c08_audio.check_audio(case, rec)
    pat, p = case["pat"], case["p"]
    n = len(pat)
    _mn, mx, sil, _imin, _isil, _mode = p
    ms = max(sil, 0)
    classes = set()
    res = {}
    for deliv in tok.DELIVS:
        frames, source, toks, at = _run(pat, p, deliv)
        res[deliv] = (frames, toks)
        if source.none_returns != 1 or source.reads != n + 1:
            raise Violation(
                f"{deliv}: source read {source.reads} times for {n} frames, "
                f"end of stream returned {source.none_returns} times (expected {n + 1} and 1)", case)
        if deliv == "list":
            continue
        for (fr, s, e), r in zip(toks, at):
            if r == n + 1 and len(fr) < mx and e + ms + 1 >= n:
                continue  # really produced by the end-of-stream flush: no deciding frame exists
            if len(fr) == mx:
                ok = r == e + 1
            else:
                ok = e + 1 <= r <= e + ms + 2
            if not ok:
                raise Violation(
                    f"{deliv}: token ({s},{e}) handed over after {r} reads "
                    f"(stream of {n}, max_length={mx}, max_silence={sil})", case)
            if r <= n - 1:
                classes.add("handed_before_eos")
    ref_frames, ref = res["list"]
    for deliv in ("gen", "cb"):
        fr2, t2 = res[deliv]
        same = len(t2) == len(ref) and all(
            (a[1], a[2]) == (b[1], b[2]) and [f.idx for f in a[0]] == [g.idx for g in b[0]]
            for a, b in zip(ref, t2))
        if not same:
            raise Violation(f"{deliv} delivers {tok.spans(t2)}, list mode {tok.spans(ref)}", case)
    T = tok.spans(ref)
    # generator mode must equal list mode also when the generator is requested first and only
    # consumed after the same tokenizer completed a list run on another stream (here: a prefix)
    frames_g, validator_g, source_g = tok.make_stream(pat, "obj")
    tk_g = tok.make_tokenizer(validator_g, p)
    g = tk_g.tokenize(source_g, generator=True)
    _f, _v, other = tok.make_stream(pat[: n // 2], "obj")
    tk_g.tokenize(other)
    late = tok.spans(list(g))
    if late != T:
        raise Violation(f"generator requested, another stream tokenized, generator consumed: {late}, list mode {T}", case)
    classes.add("late_generator")
    if n <= 130:
        plens = range(0, n + 1)
    else:
        # long stream: prefixes around every token boundary plus an even sample
        pl = {0, n}
        for s_, e_ in T:
            pl.update(range(max(s_ - 1, 0), min(s_ + 2, n) + 1))
            pl.update(range(max(e_ - 1, 0), min(e_ + ms + 3, n) + 1))
        pl.update(range(0, n + 1, max(n // 40, 1)))
        plens = sorted(pl)[:160]
        classes.add("long_stream_sampled_prefixes")
    for plen in plens:
        _f, _s, tp, _a = _run(pat[:plen], p, tok.DELIVS[plen % 3])
        Tp = tok.spans(tp)
        if len(Tp) > len(T):
            raise Violation(f"prefix {plen}: {Tp} has more tokens than whole stream {T}", case)
        if Tp:
            k = len(Tp) - 1
            if Tp[:k] != T[:k]:
                raise Violation(f"prefix {plen}: {Tp} is not a prefix of {T}", case)
            (s1, e1), (s2, e2) = Tp[k], T[k]
            if (s1, e1) != (s2, e2):
                if not (s1 == s2 and e1 < e2):
                    raise Violation(f"prefix {plen}: last token {Tp[k]} vs {T[k]}", case)
                if plen - 1 > e1 + ms:
                    raise Violation(
                        f"prefix {plen}: shorter last token {Tp[k]} (whole: {T[k]}) but the prefix "
                        f"extends more than max_silence beyond it", case)
                classes.add("flush_shorter_token")
        for s, e in T:
            decided = (e + 1) if (e - s + 1) == mx else (e + ms + 2)
            if decided <= plen and (s, e) not in Tp:
                raise Violation(
                    f"prefix {plen}: token ({s},{e}) of the whole stream is decided by frame "
                    f"{decided - 1} but missing from {Tp}", case)
            if s < plen <= e:
                classes.add("prefix_cut_inside_token")
    rec.note(case, "handed_before_eos" in classes, classes, out=T)


def explicit_cases():
    from . import c08_audio

    return [
        {"pat": "0111011100011", "p": [2, 4, 1, 0, 0, 0]},
        {"pat": "0111011100011", "p": [2, 4, 1, 0, 0, 6]},
        {"pat": "110100", "p": [1, 6, 2, 0, 0, 4]},
        {"pat": "0" * 3 + "1" * 256 + "0" + "1" * 300 + "0" * 5 + "1" * 20, "p": [2, 257, 1, 0, 0, 0]},
    ] + c08_audio.explicit_cases()


@st.composite
def _case(draw, maxmax, maxlen):
    p = draw(gen.tok_params(maxmax))
    return {"pat": draw(gen.pattern(p, maxlen if p[1] <= 64 else 3 * p[1] + 20)), "p": p}


def jobs(tier, seed):
    b = BOUNDS[tier]
    out = []
    chunk = 1 << 5
    for n in range(0, b["L"] + 1):
        for lo in range(0, 1 << n, chunk):
            out.append({"name": f"exh-n{n}-{lo}", "kind": "exh", "n": n, "lo": lo,
                        "hi": min(1 << n, lo + chunk), "M": b["M"]})
    out.sort(key=lambda j: -j["n"])
    for i in range(16):
        out.append({"name": f"hyp-{i}", "kind": "hyp", "seed": seed * 1000 + i, "n": b["hyp_examples"],
                    "maxlen": b["maxlen"], "maxmax": b["maxmax"]})
        out.append({"name": f"audio-{i}", "kind": "audio", "seed": seed * 1000 + 500 + i,
                    "n": b["audio_examples"]})
    return out


def run_job(job, rec):
    mod = sys.modules[__name__]
    if job["kind"] == "exh":
        def cases():
            params = list(gen.all_params(job["M"], inits=INITS))
            for v in range(job["lo"], job["hi"]):
                pat = format(v, f"0{job['n']}b") if job["n"] else ""
                for p in params:
                    yield {"pat": pat, "p": p}
        run_cases(mod, cases(), rec)
    elif job["kind"] == "hyp":
        hyp_run(mod, _case(job["maxmax"], job["maxlen"]), rec, job["seed"], job["n"])
    else:
        from . import c08_audio

        hyp_run(mod, c08_audio.strategy(), rec, job["seed"], job["n"])


def extra_coverage(tier):
    b = BOUNDS[tier]
    return {
        "exhaustive_part": f"all patterns of length 0..{b['L']} x all accepted (min,max,sil,mode), max_length<={b['M']}, inits {list(INITS)}; each in 3 delivery modes and on every prefix",
        "max_stream_len": b["maxlen"], "max_max_length": b["maxmax"],
    }
