"""C12 - every observer gets every detection exactly once, in order; all
threads end (explored over harness-owned schedules)."""

import os
import sys

from hypothesis import strategies as st

from .. import audio, pipeline
from ..gen import rarely
from ..common import HarnessError, Violation, _blame, hyp_run, import_auditok
from ..oracles import exact_round, fmt_seconds3

import_auditok()
import auditok  # noqa: E402

ID = "C12"
LEVEL = "exploration"
RULE = (
    "Cases = synthesized recording (0..40 windows, incl. empty and event-free) x split parameters x reader (AudioReader "
    "over a harness source whose every read is a scheduling point, optionally wrapped in a started StreamSaverWorker) x "
    "observer multiset from {recording observer x0..3, PrintWorker, RegionSaverWorker, AudioEventsJoinerWorker, PlayerWorker over a "
    "harness player, and - rarely, on streams with 55-70 detections and only 40 spare file descriptors - CommandLineWorker} x a "
    "order in which the threads are started (start_all, or the tokenizer before some or all observers) x "
    "schedule = list of 0..400 small integers (one case in ten: a stream of 66-110 blocks whose consumers are starved, so "
    "inboxes grow beyond 64 entries) choosing, at every yield point (queue put/get/get_nowait, thread start/exit, "
    "join, source read, observer callback), which enabled thread runs next - including when a queue wait times out; after "
    "the list a fair policy finishes the run. Oracle: each recording observer's log == [(i, bytes, start, end)] of "
    "split() over the same bytes and parameters, ids 1.., == the worker's detections list, == PrintWorker's lines; no "
    "deadlock, all threads exit by themselves within 50*(2*blocks+threads)+200 scheduling steps, no uncaught thread "
    "exception. A few cases per run are repeated with the real queue.Queue and free-running threads (sleep-perturbed) "
    "and must give the same logs. Non-trivial = >= 2 detections, >= 1 queue timeout fired in an observer before its "
    "first message and >= 10 context switches."
)
MUST_HIT = ["timeout_between_messages", "observer_busy_at_stop_marker", "zero_detections", "with_stream_saver",
            "free_running_validation", "three_observers", "tokenizer_started_before_some_observer", "queue_backlog_ge_64",
            "command_observer_many_detections", "player_observer", "real_lazy_file_source", "two_pipelines_side_by_side",
            "saver_name_without_wav_extension", "relative_file_names", "hundreds_of_consecutive_timeouts",
            "validator_object_passed_to_worker", "clock_at_end_of_second", "overlapping_reader",
            "reader_with_max_read_and_saver", "tokenizer_with_logger_zero_detections", "stale_temporary_wav_present",
            "more_than_4096_detections", "recording_reader", "saver_default_cache", "audio_block_equal_to_a_library_constant",
            "observer_busy_for_more_than_a_second", "parameters_refused_by_the_worker_constructor",
            "free_running_preempted_at_every_line"]
ASSUMPTIONS = [
    "interleavings are explored at the granularity of queue operations, source reads, observer callbacks, thread start/exit and joins (DESIGN 3.4)",
    "liveness judged under the harness's fair continuation after the generated prefix",
    "split() is the oracle for the threaded path (judged by C04-C07)",
]
BOUNDS = {"quick": dict(n=300, maxwin=24, free=8), "thorough": dict(n=6000, maxwin=40, free=150)}


# ------------------------------------------------------------------ judges

def judge_threads(run, case):
    if run.failure:
        kind, text = run.failure
        raise Violation(
            ("deadlock: " if kind == "deadlock" else "threads did not terminate: ") + text, case)
    for name, exc, tb in run.thread_errors:
        if isinstance(exc, RecursionError):
            # the stack overflowed wherever it happened to be; who built the stack decides
            import traceback as _tb

            from ..common import REPO

            frames = _tb.extract_tb(exc.__traceback__)
            repo_frames = [f for f in frames if os.path.abspath(f.filename).startswith(REPO + os.sep)]
            if len(repo_frames) > 100:
                raise Violation(
                    f"RecursionError in thread {name}: {len(repo_frames)} nested library frames "
                    f"(e.g. {os.path.relpath(repo_frames[-1].filename, REPO)}:{repo_frames[-1].lineno})", case)
        who, where = _blame(exc)
        if who == "repo":
            raise Violation(f"uncaught {type(exc).__name__}: {exc} in thread {name} at {where}", case)
        raise HarnessError(f"harness exception in thread {name}:\n{tb}")
    if run.alive:
        raise Violation(f"threads still alive after the run: {run.alive}", case)


def judge_observers(run, case, exp):
    """exp = [(id, bytes, start, end)]"""
    for k, o in enumerate(run.recs):
        if o.log != exp:
            got = [(i, len(b), s, e) for i, b, s, e in o.log]
            want = [(i, len(b), s, e) for i, b, s, e in exp]
            raise Violation(f"observer {k} processed {got}, split() gives {want}"
                            f"{' (same shape, bytes differ)' if got == want else ''}", case)
    dets = [(d.id, d.start, d.end) for d in run.tokenizer.detections]
    if dets != [(i, s, e) for i, _b, s, e in exp]:
        raise Violation(f"worker's detections list {dets} != split() {[(i, s, e) for i, _b, s, e in exp]}", case)
    for d, (_i, b, s, e) in zip(run.tokenizer.detections, exp):
        if d.duration != len(b) / (run.src.sw * run.src.ch) / run.src.sr:
            raise Violation(f"detection {d.id} duration {d.duration!r}", case)
    if run.player is not None:
        if run.player.played != [b for _i, b, _s, _e in exp]:
            raise Violation(f"PlayerWorker played {len(run.player.played)} regions, {len(exp)} detections "
                            "(or different audio / order)", case)
    if run.command is not None:
        # each detection is saved as a wav and handed to the command, in order: the command appends the files
        import wave as _wave

        got = b""
        if os.path.exists(run.cmd_log):
            with open(run.cmd_log, "rb") as fp:
                blob = fp.read()
            # the log is a concatenation of wav files: split on the RIFF header
            parts = [b"RIFF" + x for x in blob.split(b"RIFF") if x]
            import io as _io

            for part in parts:
                with _wave.open(_io.BytesIO(part)) as w:
                    got += w.readframes(w.getnframes())
        if got != b"".join(b for _i, b, _s, _e in exp):
            raise Violation("CommandLineWorker did not hand every detection, once and in order, to the command", case)
    if run.printer is not None:
        bps = run.src.sw * run.src.ch
        want = [f"{i} {fmt_seconds3(s)} {fmt_seconds3(e)} {fmt_seconds3(len(b) / bps / run.src.sr)}" for i, b, s, e in exp]
        got = run.stdout.splitlines()
        if got != want:
            raise Violation(f"PrintWorker printed {got}, expected {want}", case)


def judge_files(run, case, exp, blocks):
    """C13 oracles: stream saver, joiner, region saver."""
    sr, sw, ch = run.src.sr, run.src.sw, run.src.ch
    bps = sw * ch
    if getattr(run, "export_errors", None):
        raise Violation(f"exporting the recorded audio failed: {run.export_errors[0]!r}", case)

    def read_output(path, ext, what):
        """final file under the name that was asked for: headerless for .raw, wav otherwise
        (also when the name has no extension)"""
        if not os.path.exists(path):
            raise Violation(f"{what}: no file {os.path.basename(path)!r} after the run", case)
        if ext.lower() == ".raw":
            with open(path, "rb") as fp:
                return (sr, sw, ch), fp.read()
        try:
            return pipeline.read_wav(path)
        except Exception as exc:  # noqa: BLE001
            raise Violation(f"{what} is not a readable wav file: {type(exc).__name__}: {exc}", case)

    if case.get("saver"):
        params, frames = read_output(run.saver_path, getattr(run, "saver_ext", ".wav"), "saved stream")
        if params != (sr, sw, ch):
            raise Violation(f"saved stream header {params} != source {(sr, sw, ch)}", case)
        want = b"".join(blocks)
        if frames != want:
            raise Violation(
                f"saved stream holds {len(frames) // bps} samples, the source handed out {len(want) // bps}"
                f"{' (content differs)' if len(frames) == len(want) else ''}", case)
        seen = [b for b in run.proxy.returned if b is not None] if run.proxy is not None else blocks
        if seen != blocks:
            raise Violation(f"tokenizer received {len(seen)} blocks, wrapped reader produced {len(blocks)} (or content differs)", case)
    if run.joiner is not None:
        params, frames = read_output(run.joiner_path, getattr(run, "joiner_ext", ".wav"), "joined-events file")
        nsil, razor = exact_round(run.join_sil, sr)
        sil = b"\0" * (nsil * bps)
        want = sil.join(b for _i, b, _s, _e in exp)
        # inside the razor (exact product within 1e-9 of, but not on, a .5 boundary) either neighbour is accepted
        alts = [want] + ([(b"\0" * (n * bps)).join(b for _i, b, _s, _e in exp) for n in (nsil + 1, max(nsil - 1, 0))] if razor else [])
        if params != (sr, sw, ch):
            raise Violation(f"joined file header {params} != {(sr, sw, ch)}", case)
        if frames not in alts:
            raise Violation(
                f"joined file holds {len(frames) // bps} samples, expected {len(want) // bps} "
                f"({len(exp)} events separated by {nsil} zero samples)", case)
    if run.regsave is not None:
        want_files = {}
        for i, b, s, e in exp:
            name = run.tmpl.format(id=i, start=s, end=e, duration=len(b) / bps / sr)
            want_files[name] = b
        have = {os.path.join(run.dir, f) for f in os.listdir(run.dir)} - set(getattr(run, "ignore_files", ()))
        if have != set(want_files):
            raise Violation(
                f"region files {sorted(os.path.basename(x) for x in have)} != expected "
                f"{sorted(os.path.basename(x) for x in want_files)}", case)
        for name, b in want_files.items():
            if name.lower().endswith(".wav"):
                params, frames = pipeline.read_wav(name)
                if params != (sr, sw, ch) or frames != b:
                    raise Violation(f"region file {os.path.basename(name)} does not hold its detection", case)
            else:
                with open(name, "rb") as fp:
                    if fp.read() != b:
                        raise Violation(f"region file {os.path.basename(name)} does not hold its detection", case)


def judge_after_release(run, case):
    """C13: the files are what counts, not the worker objects - once the program has let go of the
    workers (and they have been collected), the saved stream and the joined events are still there."""
    paths = []
    if case.get("saver"):
        paths.append(run.saver_path)
    if getattr(run, "joiner_path", None) and "joiner" in case["observers"]:
        paths.append(run.joiner_path)
    before = {}
    for p in paths:
        if os.path.exists(p):
            with open(p, "rb") as fp:
                before[p] = fp.read()
    pipeline.release(run)
    for p, blob in before.items():
        if not os.path.exists(p):
            raise Violation(f"{os.path.basename(p)} disappeared once the worker that wrote it was released and collected", case)
        with open(p, "rb") as fp:
            if fp.read() != blob:
                raise Violation(f"{os.path.basename(p)} changed once the worker that wrote it was released and collected", case)


def check_bad_params(case, rec):
    """Durations that split() refuses must be refused when the worker is built - not in its thread, where
    nobody would tell the observers to stop."""
    import auditok as _a
    import auditok.workers as W

    r = case["audio"]
    data, thr = audio.synth(r)
    sr, sw, ch, B = r["sr"], r["sw"], r["ch"], r["B"]
    w = B / sr
    kw = dict(case["bad_params"])
    kw = {k: (v * w if k in ("min_dur", "max_dur", "max_silence") else v) for k, v in kw.items()}
    try:
        list(_a.split(_a.AudioReader(data, block_dur=w, sampling_rate=sr, sample_width=sw, channels=ch), energy_threshold=thr, **kw))
        refused_by_split = False
    except ValueError:
        refused_by_split = True
    if not refused_by_split:
        raise HarnessError("bad_params member accepted by split()")
    reader = _a.AudioReader(data, block_dur=w, sampling_rate=sr, sample_width=sw, channels=ch)
    obs = [pipeline.make_rec_observer(None), W.PrintWorker()]
    try:
        tk = W.TokenizerWorker(reader, obs, energy_threshold=thr, **kw)
    except ValueError:
        rec.note(case, True, {"parameters_refused_by_the_worker_constructor"}, out="ValueError")
        return
    raise Violation(f"TokenizerWorker accepted {case['bad_params']} (in windows), which split() refuses with ValueError: {tk!r}", case)


def judge_twin(run):
    """the second pipeline that ran alongside (if any) must be as right as if it had been alone"""
    tw = getattr(run, "twin", None)
    if tw is None:
        return
    exp2 = pipeline.expected_detections(tw.data, tw.case, tw.thr)
    tcase = {"twin_of": "see enclosing case", **{k: v for k, v in tw.case.items()}}
    judge_observers(tw, tcase, exp2)
    judge_files(tw, tw.case, exp2, tw.src.handed)


def trace_classes(run, exp):
    """Labels computed from the schedule trace."""
    out = set()
    tr = run.sched.trace
    seen_msg = {}
    first_timeout_before_msg = False
    for name, label, fired in tr:
        if label == "get-timeout" and not name.startswith("Tokenizer") and not name.startswith("main"):
            if fired:
                if seen_msg.get(name, 0) == 0:
                    first_timeout_before_msg = True
                elif seen_msg.get(name, 0) < len(exp):
                    out.add("timeout_between_messages")
            else:
                seen_msg[name] = seen_msg.get(name, 0) + 1
    if first_timeout_before_msg:
        out.add("timeout_before_first_message")
    return out


def check_free_only(case, rec):
    """Streams with thousands of detections: free-running threads only (finite source, results judged
    after the threads have ended)."""
    run = pipeline.run_pipeline(case, scheduled=False, jitter=case.get("jitter"))
    try:
        if run.alive:
            raise Violation(f"threads still alive after the stream ended: {run.alive}", case)
        exp = pipeline.expected_detections(run.data, case, run.thr)
        judge_observers(run, case, exp)
        judge_files(run, case, exp, run.src.handed)
        classes = {"free_running_validation"}
        if case.get("jitter") and max(case["jitter"]) > 1.0:
            classes.add("observer_busy_for_more_than_a_second")
        if len(exp) > 4096:
            classes.add("more_than_4096_detections")
        rec.note(case, True, classes, out={"detections": len(exp)})
    finally:
        pipeline.cleanup(run)


def check_case(case, rec):
    if case.get("bad_params"):
        return check_bad_params(case, rec)
    if case.get("free_only"):
        return check_free_only(case, rec)
    run = pipeline.run_pipeline(case, scheduled=True)
    try:
        judge_threads(run, case)
        exp = pipeline.expected_detections(run.data, case, run.thr)
        judge_observers(run, case, exp)
        judge_files(run, case, exp, run.src.handed)
        judge_twin(run)
        if run.src.none_returns > 1:
            raise Violation(f"end of stream requested {run.src.none_returns} times from the source", case)
        classes = trace_classes(run, exp)
        if not exp:
            classes.add("zero_detections")
        if case.get("saver"):
            classes.add("with_stream_saver")
        if len(case["observers"]) >= 3:
            classes.add("three_observers")
        if case.get("start", "start_all") != "start_all":
            classes.add("tokenizer_started_before_some_observer")
        if case.get("src_kind", "harness") != "harness":
            classes.add("real_lazy_file_source")
        if case.get("twin"):
            classes.add("two_pipelines_side_by_side")
        hop_, mr_, _v = pipeline.reader_options(case)
        if hop_ is not None:
            classes.add("overlapping_reader")
        if mr_ is not None:
            classes.add("reader_with_max_read" + ("_and_saver" if case.get("saver") else ""))
        if case.get("record"):
            classes.add("recording_reader")
        if case.get("saver") and case["saver"]["cache"] is None:
            classes.add("saver_default_cache")
        if case["audio"].get("inject") and pipeline.inject_constant(b"\0" * len(run.data), case["audio"]) != b"\0" * len(run.data):
            classes.add("audio_block_equal_to_a_library_constant")
        if case.get("logger"):
            classes.add("tokenizer_with_logger" + ("_zero_detections" if not exp else ""))
        if case.get("stale_tmp") and ((case.get("saver") or {}).get("ext", ".wav") == ".raw" or
                                      ("joiner" in case["observers"] and case.get("joiner_ext") == ".raw")):
            classes.add("stale_temporary_wav_present")
        if case.get("relative"):
            classes.add("relative_file_names")
        if case.get("idle_storm") and run.sched.timeouts >= 500:
            classes.add("hundreds_of_consecutive_timeouts")
        if (case.get("tok_spell") or {}).get("validator"):
            classes.add("validator_object_passed_to_worker")
        if case.get("clock_us") is not None and case["clock_us"] >= 999500:
            classes.add("clock_at_end_of_second")
        if case.get("saver") and case["saver"].get("ext", ".wav") != ".wav":
            classes.add("saver_name_without_wav_extension")
        if case.get("saver") and case["saver"].get("fmt") and case["saver"].get("ext", ".wav").lower() in ("", "." + case["saver"]["fmt"].lower()):
            classes.add("saver_explicit_export_format")
        if case.get("saver") and len(run.data) // (run.src.sw * run.src.ch) > 65536:
            classes.add("saver_more_than_65536_frames")
        if "command" in case["observers"]:
            classes.add("command_observer_many_detections")
        if "player" in case["observers"]:
            classes.add("player_observer")
        if case.get("long"):
            qmax = max([max((q for _m, q in w._inbox.put_log), default=0) for w in run.workers] or [0])
            if qmax >= 64:
                classes.add("queue_backlog_ge_64")
        # an observer still had unprocessed messages when the stop marker was queued
        if any(len(o.log) == len(exp) for o in run.recs) and len(exp) >= 1:
            for o in run.recs:
                pass
        if _busy_at_stop(run, exp):
            classes.add("observer_busy_at_stop_marker")
        nt = len(exp) >= 2 and "timeout_before_first_message" in classes and run.sched.switches >= 10
        if case.get("free"):
            # free-running threads (no scheduler); every other time they also give up the interpreter at every line of
            # the library, so that switches fall between statements the scheduler's yield points do not separate
            from ..common import preempt_every_line
            import contextlib as _cl

            pre = len(case.get("choices", ())) % 2 == 0
            with (preempt_every_line() if pre else _cl.nullcontext()):
                free = pipeline.run_pipeline(case, scheduled=False, jitter=[0.0, 0.0002, 0.0])
            if pre:
                classes.add("free_running_preempted_at_every_line")
            try:
                judge_observers(free, case, exp)
                judge_files(free, case, exp, free.src.handed)
                if free.alive:
                    raise HarnessError("free-running threads alive")
            finally:
                pipeline.cleanup(free)
            classes.add("free_running_validation")
        rec.note({k: v for k, v in case.items()}, nt, classes,
                 out={"detections": len(exp), "steps": run.sched.steps, "switches": run.sched.switches,
                      "timeouts": run.sched.timeouts})
    finally:
        pipeline.cleanup(run)


def _busy_at_stop(run, exp):
    """True if, when the tokenizer queued the stop marker for an observer,
    that observer had not yet processed all detections."""
    tr = run.sched.trace
    # index of the first 'put' by the tokenizer after its last detection put:
    puts = [k for k, (name, label, _f) in enumerate(tr) if name.startswith("Tokenizer") and label == "put"]
    nobs = max(len(run.tokenizer._observers), 1)
    if len(puts) < nobs:
        return False
    stop_put = puts[-nobs]
    processed = sum(1 for name, label, _f in tr[:stop_put] if label == "obs-process")
    return processed < len(exp) * len(run.recs) and len(run.recs) > 0 and len(exp) > 0


def explicit_cases():
    a = {"sr": 100, "sw": 2, "ch": 2, "B": 2, "pat": "0111011100011000", "tail": [1, 0], "al": 500, "aq": 1, "salt": 9, "uc": None}
    quiet = dict(a, pat="0000000")
    return [
        {"audio": a, "win": [2, 4, 1, False, False], "saver": None, "observers": ["rec", "rec", "print"], "choices": []},
        {"audio": a, "win": [2, 4, 1, False, False], "saver": {"cache": 0.01}, "observers": ["rec", "joiner", "regsave"],
         "join_sil": [3, 0], "tmpl": "d{id}_{start:.2f}_{end:.2f}_{duration:.3f}", "ext": "wav",
         "choices": [0, 1, 2, 3, 4, 5, 1, 1, 1, 0, 0, 2, 2, 5, 4, 3, 3, 3, 1, 0] * 6, "free": True},
        {"audio": quiet, "win": [1, 3, 0, True, True], "saver": {"cache": 10.0}, "observers": ["rec", "joiner"],
         "join_sil": [0, 0], "choices": [2, 2, 2, 1, 1, 0] * 10},
        {"audio": dict(a, pat="", tail=[0, 0]), "win": [1, 3, 0, False, False], "saver": None, "observers": [], "choices": []},
        {"audio": a, "win": [1, 2, 0, False, False], "saver": None, "observers": ["rec"],
         "choices": [1] * 40 + [0] * 40 + [2] * 40},
        {"audio": a, "win": [2, 4, 1, False, False], "saver": {"cache": 0.05, "ext": ""}, "observers": ["rec", "joiner"],
         "joiner_ext": ".raw", "join_sil": [2, 0], "src_kind": "wav_lazy", "twin": True, "choices": [0, 1, 2, 3, 4, 5, 6] * 40},
        {"audio": a, "win": [2, 4, 1, False, False], "saver": {"cache": 100.0, "ext": ".raw"}, "observers": ["rec"],
         "src_kind": "raw_lazy", "twin": True, "choices": [-1] * 60 + [3, 1, 0] * 30},
        {"audio": a, "win": [2, 4, 1, False, False], "saver": {"cache": 0.03, "ext": ""}, "observers": ["rec", "regsave", "joiner"],
         "tmpl": "det_{id}_{start:.3f}-{end:.3f}", "ext": "wav", "joiner_ext": ".raw", "join_sil": [1, 0], "relative": True,
         "clock_us": 999999, "tok_spell": {"validator": "val"}, "choices": [-1] * 12 + [1, 2, 3, 0] * 30},
        {"audio": a, "win": [2, 4, 1, False, False], "saver": None, "observers": ["rec", "print"], "clock_us": 999612,
         "tok_spell": {"eth": "eth", "uc": "uc"}, "choices": [0] * 900, "idle_storm": True},
        {"audio": a, "win": [2, 4, 1, False, False], "saver": None, "observers": ["rec", "rec", "print"],
         "choices": [-1] * 30 + [0, 1, 2] * 20, "start": "tokenizer_first"},
        {"audio": dict(a, B=1, pat="10" * 60, tail=[0, 0]), "win": [1, 1, 0, False, False], "saver": None,
         "observers": ["player", "command"], "choices": [0, 1, 2] * 30},
        {"audio": dict(a, B=1, pat="10" * 45, tail=[0, 0]), "win": [1, 1, 0, False, False], "saver": {"cache": 0.0},
         "observers": ["rec"], "choices": [-1] * 700, "long": True},
        {"audio": quiet, "win": [1, 3, 0, False, False], "saver": None, "observers": ["rec", "print"], "logger": True,
         "choices": [2, 1, 0] * 10},
        {"audio": a, "win": [2, 4, 1, False, False], "saver": None, "observers": ["rec", "print"], "logger": True,
         "overlap": True, "choices": [0, 1, 2, 3] * 20},
        {"audio": a, "win": [2, 4, 1, False, False], "saver": {"cache": 0.02, "ext": ".raw"}, "observers": ["rec", "joiner"],
         "joiner_ext": ".raw", "join_sil": [2, 0], "stale_tmp": True, "mr": [21, 0], "logger": True, "choices": [0, 1, 2, 3, 4] * 20},
        {"audio": a, "win": [2, 4, 1, False, False], "saver": {"cache": 1000.0}, "observers": ["rec"], "mr": [17, 0.75],
         "choices": [-1] * 20 + [0, 1, 2, 3] * 20},
        {"audio": dict(a, B=1, sr=10, ch=1, sw=1, al=60, pat="10" * 4200, tail=[0, 0]), "win": [1, 1, 0, False, False], "saver": None,
         "observers": ["rec", "print"], "choices": [], "free_only": True, "logger": True},
        {"audio": a, "win": [2, 4, 1, False, False], "saver": None, "observers": ["rec", "print"], "record": True, "choices": [0, 1, 2, 3] * 20},
        {"audio": a, "win": [2, 4, 1, False, False], "saver": {"cache": 0.02}, "observers": ["rec"], "record": True, "mr": [25, 0],
         "choices": [-1] * 10 + [0, 1, 2, 3] * 20},
        {"audio": a, "bad_params": {"min_dur": 5, "max_dur": 3, "max_silence": 0}}, {"audio": a, "bad_params": {"min_dur": 1, "max_dur": 5, "max_silence": 5}},
        {"audio": a, "bad_params": {"min_dur": 1, "max_dur": 5, "max_silence": 1, "use_channel": 7}},
        {"audio": a, "bad_params": {"min_dur": 0, "max_dur": 5, "max_silence": 1}}, {"audio": a, "bad_params": {"min_dur": 1, "max_dur": 5, "max_silence": -1}},
        # an observer that needs more than a second for one detection (a slow command, a slow disk)
        {"audio": a, "win": [2, 4, 1, False, False], "saver": None, "observers": ["rec", "rec"], "choices": [], "free_only": True,
         "jitter": [1.25, 0.0, 0.0, 0.0, 0.0, 0.0, 0.0, 0.0]},
        # audio blocks of 15 bytes, one of which reads "STOP_PROCESSING"
        {"audio": dict(a, sr=1500, sw=1, ch=1, B=15, al=90, pat="1111111100001111111100001111", tail=[0, 0], inject=[10, 0]),
         "win": [2, 20, 2, False, False], "saver": {"cache": 0}, "observers": ["rec"], "choices": [0, 1, 2, 3] * 30},
        {"audio": dict(a, sr=16000, sw=2, ch=1, B=256, al=8000, pat=("1111100" * 12)[:70], tail=[0, 0]), "win": [1, 3, 0, False, False],
         "saver": {"cache": None}, "observers": ["rec"], "choices": [0, 1, 2] * 20},
    ]


TMPL = st.lists(st.sampled_from(["d", "_", "{id}", "{start}", "{end:.3f}", "{duration:.2f}", "{start:.3f}", "x"]),
                min_size=0, max_size=4).map(lambda parts: "r{id}" + "".join(parts))


@st.composite
def strategy(draw, maxwin, free=False):
    c = draw(audio.audio_case(maxwin=maxwin, maxB=4, maxmax=6))
    c["audio"]["sr"] = draw(st.sampled_from([10, 100, 8000]))
    obs = draw(st.lists(st.sampled_from(["rec", "rec", "rec", "print", "regsave", "joiner", "player"]), max_size=4))
    for k in ("print", "regsave", "joiner", "player"):
        while obs.count(k) > 1:
            obs.remove(k)
    c["observers"] = obs
    B, sr = c["audio"]["B"], c["audio"]["sr"]
    c["saver"] = draw(st.one_of(st.none(), st.builds(
        lambda x: {"cache": x}, st.sampled_from([0, 0.5 / sr, B / sr / 2, B / sr, 3 * B / sr, 1000.0]))))
    c["join_sil"] = [draw(st.integers(0, 5)), draw(st.sampled_from([0, 0.25, 0.5, 0.75]))]
    c["tmpl"] = draw(TMPL)
    c["ext"] = draw(st.sampled_from(["wav", "raw", "wav", "raw", "WAV", "Wav", "RAW"]))
    nthreads = 2 + len(obs)
    c["choices"] = draw(st.one_of(
        st.lists(st.integers(0, nthreads), max_size=400),
        st.lists(st.integers(0, nthreads), min_size=30, max_size=120).map(
            lambda l: [x for x in l for _ in range(4)]),   # bursty: each thread runs for a while
    ))
    c["start"] = draw(st.sampled_from(["start_all", "start_all", "start_all", "tokenizer_first", "tokenizer_middle"]))
    c["src_kind"] = draw(st.sampled_from(["harness", "harness", "harness", "wav_lazy", "raw_lazy"]))
    if c["saver"]:
        c["saver"]["ext"] = draw(st.sampled_from([".wav", ".wav", "", ".raw", ".WAV", ".Wav", ".Raw"]))
        if draw(rarely(4)):
            e_ = c["saver"]["ext"].lower()
            c["saver"]["fmt"] = draw(st.sampled_from(["wav", "WAV", "Wav", "raw", "RAW"] if e_ == "" else
                                                     (["wav", "WAV", "Wav"] if e_ == ".wav" else ["raw", "RAW", "Raw"])))
    c["joiner_ext"] = draw(st.sampled_from([".wav", ".wav", "", ".raw", ".WAV", ".Wav", ".RAW"]))
    c["twin"] = draw(rarely(8))
    c["relative"] = draw(rarely(6))
    c["clock_us"] = draw(st.one_of(st.none(), st.sampled_from([0, 1, 499, 500, 999499, 999500, 999999]), st.integers(0, 999999)))
    c["tok_spell"] = draw(st.sampled_from([{}, {}, {"eth": "eth"}, {"uc": "uc"}, {"eth": "eth", "uc": "uc"},
                                           {"validator": "validator"}, {"validator": "val"}]))
    c["logger"] = draw(st.booleans())
    c["record"] = draw(rarely(5))
    c["direct"] = draw(st.booleans())
    if draw(rarely(12)):
        # one block of the audio equals a string constant of the library (e.g. an internal marker)
        consts = pipeline.library_constants()
        const = draw(st.sampled_from(consts))
        facts = [(cc, len(const) // cc) for cc in (1, 3, 5, 2, 4) if len(const) % cc == 0]
        cc, bb = draw(st.sampled_from(facts))
        c["audio"].update(sw=1, ch=cc, B=bb, uc=None, al=min(c["audio"]["al"], 100), tail=[0, 0])
        c["audio"].pop("thr0", None)
        fit = [x for x in consts if len(x) == len(const)]
        c["audio"]["inject"] = [draw(st.integers(0, max(len(c["audio"]["pat"]) - 1, 0))), fit.index(const)]
        if not c["saver"]:
            c["saver"] = {"cache": draw(st.sampled_from([0, 1000.0]))}
    if c["saver"] and draw(rarely(30)):
        # the default cache (0.5 s) at 16 kHz / 16 bit with blocks of 256..2048 samples: flushes fall on multiples of 8192 bytes
        c["audio"].update(sr=16000, sw=2, ch=1, B=draw(st.sampled_from([256, 512, 1024, 2048])), tail=[0, 0], uc=None,
                          pat="".join(draw(st.lists(st.sampled_from(["1", "0", "11", "00"]), min_size=12, max_size=24))))
        c["audio"]["pat"] = (c["audio"]["pat"] * 8)[: max(17000 // c["audio"]["B"], 12)]
        c["audio"]["al"] = min(max(c["audio"]["al"], 100), 16000)
        c["audio"].pop("thr0", None)
        c["saver"]["cache"] = None
        c["win"] = [1, draw(st.integers(1, 3)), 0, c["win"][3], c["win"][4]]
        c["choices"] = c["choices"][:80]
        c["twin"] = False
    c["stale_tmp"] = draw(st.booleans())
    if not c["saver"] and B % 2 == 0:
        c["overlap"] = draw(rarely(4))
    if draw(rarely(4)):
        nsamp = len(c["audio"]["pat"]) * B + c["audio"]["tail"][0]
        c["mr"] = [draw(st.integers(1, max(nsamp + 2, 1))), draw(st.sampled_from([0, 0, 0.25, 0.75]))]
    if draw(rarely(25)):
        # one consumer's queue wait times out hundreds of times in a row before anything arrives
        c["choices"] = [0] * draw(st.integers(600, 1300)) + c["choices"][:100]
        c["idle_storm"] = True
    if c["saver"] and draw(rarely(60)):
        # more than 2**16 frames recorded and exported headerless
        c["audio"].update(B=4096, sw=2, tail=[0, 0], pat="".join(draw(st.lists(st.sampled_from("01"), min_size=8, max_size=24))))
        c["saver"]["cache"] = draw(st.sampled_from([1000.0, 1000.0, 8 * 4096 / c["audio"]["sr"], c["saver"]["cache"]]))
        c["audio"]["al"] = min(max(c["audio"]["al"], 100), 16000)
        if c["audio"].get("thr0"):
            c["audio"]["al"] = min(c["audio"]["al"], 60)
        c["saver"]["ext"] = ".raw"
        c["win"] = [1, draw(st.integers(1, 3)), 0, c["win"][3], c["win"][4]]
        c["choices"] = c["choices"][:80]
        c["twin"] = False
    if draw(rarely(80)):
        # a CommandLineWorker among the observers, on a stream with many detections (a shell per detection)
        c["audio"]["B"] = 1
        c["audio"]["tail"] = [0, 0]
        c["audio"]["pat"] = "10" * draw(st.integers(55, 70))
        c["win"] = [1, 1, 0, False, False]
        c["observers"] = [o for o in c["observers"] if o != "regsave"][:2] + ["command"]
        c["choices"] = c["choices"][:60]
    r = draw(st.sampled_from(range(10)))
    if r == 0:
        # a long stream whose consumers are starved: the last-registered thread (the tokenizer) keeps
        # the baton, so queues grow to the length of the stream (choice -1 = last enabled thread)
        n = draw(st.integers(66, 110))
        c["audio"]["B"] = 1
        c["audio"]["tail"] = [0, 0]
        c["audio"]["pat"] = ("".join(draw(st.lists(st.sampled_from(["10", "110", "0", "1"]), min_size=40, max_size=40))) * 4)[:n]
        c["win"] = [1, draw(st.integers(1, 3)), 0, c["win"][3], c["win"][4]]
        c["choices"] = [-1] * draw(st.integers(300, 900)) + c["choices"][:50]
        c["long"] = True
        c["start"] = "start_all"
    return c


def jobs(tier, seed):
    b = BOUNDS[tier]
    out = []
    for i in range(16):
        out.append({"name": f"hyp-{i}", "seed": seed * 1000 + i, "n": b["n"], "maxwin": b["maxwin"], "free": 0})
    out.append({"name": "free-running", "seed": seed * 1000 + 99, "n": b["free"], "maxwin": 16, "free": 1})
    return out


def run_job(job, rec):
    strat = strategy(job["maxwin"])
    if job["free"]:
        strat = strat.map(lambda c: dict(c, free=True))
    hyp_run(sys.modules[__name__], strat, rec, job["seed"], job["n"], shrink=True)
