"""C10 - AudioReader framing: fixed-size blocks, overlap, max_read."""

import math
import os
import sys
import wave
from fractions import Fraction

from hypothesis import strategies as st

from ..audio import _h
from ..common import HarnessError, Violation, hyp_run, import_auditok, tmpdir
from ..gen import rarely
from ..oracles import block_model, exact_floor, exact_round

import_auditok()
import auditok  # noqa: E402
from auditok.io import BufferAudioSource  # noqa: E402

ID = "C10"
LEVEL = "exploration"
RULE = (
    "Cases = source of 0..60 samples (thorough ..400) with distinct content x width 1/2/4 x 1-3 channels x rate x "
    "block B in 1..12 samples x hop (none, = B, 1..B-1), durations passed as k/rate or, one case in three, with a "
    "quarter/half/three-quarter sample added (so hop_dur < block_dur may mean the same number of samples) x max_read (none, k samples, k+1/4, k+3/4 samples; 0 and "
    "beyond the end included) x source kind (bytes, BufferAudioSource - fresh or already partly consumed -, lazy raw file, lazy wav file, standard input behind a BytesIO or a real OS pipe fed in uneven pieces, a raw 'file' that is a named pipe being written while it is read) x 1-5 reads past "
    "the end; plus rejected configurations (block shorter than a sample, block 0, hop > block). Oracle: closed-form "
    "block sequence over the visible prefix (chunks of B; with overlap block k = samples [k*hop, k*hop+B)), then None "
    "on every further call; block_size/hop_size/block_dur equal the model; ValueError for the rejected ones. "
    "Non-trivial = overlap with >= 3 blocks, or max_read strictly inside a block, or visible data shorter than a block."
)
RULE += (
    ' Also: samples pulled out of a buffer source == visible data; a redundant open() mid-stream changes nothing; hop_dur one ulp above block_dur is rejected, one ulp below is an overlapping reader.'
)
MUST_HIT = ["source_already_partly_consumed", "fractional_durations", "hop_lt_block_same_samples", "empty_visible_with_overlap", "over_reads", "overlap_3_blocks", "max_read_inside_block",
            "visible_shorter_than_block", "rejected", "kind_wav_lazy", "kind_raw_lazy", "kind_stdin", "kind_stdin_pipe",
            "kind_raw_fifo", "kind_raw_eager", "kind_wav_eager", "more_than_one_io_buffer", "block_longer_than_65536_samples", "redundant_open_mid_stream"]
ASSUMPTIONS = ["durations are passed as k/rate; where the exact product lies within 1e-9 of an integer either neighbour is accepted for block/hop size"]
BOUNDS = {"quick": dict(n=1200, maxN=60), "thorough": dict(n=8000, maxN=400)}
KINDS = ("bytes", "buffer", "raw_lazy", "wav_lazy", "stdin", "stdin_pipe", "raw_fifo", "raw_eager", "wav_eager")


class _FifoFeeder:
    """A named pipe standing for a raw 'file' that is produced while it is read (a recorder writing
    to a FIFO).  Pieces do not line up with samples or blocks and the next piece is written only once
    the pipe has been drained, so a reader content with a partial read sees short blocks every time,
    while a buffered blocking read is exact."""

    def __init__(self, path, data, sizes):
        import array
        import fcntl
        import termios
        import threading
        import time

        os.mkfifo(path)
        self.stop = False
        self.written = 0  # bytes handed to the pipe so far

        def feed():
            fd = None
            t0 = time.time()
            while fd is None and not self.stop and time.time() - t0 < 30:
                try:
                    fd = os.open(path, os.O_WRONLY | os.O_NONBLOCK)
                except OSError:
                    time.sleep(0.0005)  # no reader yet
            if fd is None:
                return
            os.set_blocking(fd, True)  # (non-blocking only to get past open(); writes must be complete)
            buf = array.array("i", [0])
            pos = i = 0
            try:
                while pos < len(data) and not self.stop:
                    t1 = time.time()
                    while not self.stop and time.time() - t1 < 20:
                        try:
                            fcntl.ioctl(fd, termios.FIONREAD, buf)
                        except OSError:
                            break
                        if buf[0] == 0:
                            break
                        time.sleep(0.0002)
                    n = sizes[i % len(sizes)]
                    piece = data[pos: pos + n]
                    self.written = min(pos + n, len(data))
                    while piece:
                        piece = piece[os.write(fd, piece):]
                    pos += n
                    i += 1
                    time.sleep(0.0003)
            except OSError:
                pass
            finally:
                os.close(fd)

        self.thread = threading.Thread(target=feed, daemon=True)
        self.thread.start()

    def finish(self):
        self.stop = True
        self.thread.join(10)
_ctr = [0]


def content(N, bps, salt):
    """distinct-looking bytes; above 4096 bytes a 4099-byte pattern is repeated (prime period, so any
    misplaced slice still shows)"""
    n = N * bps
    if n <= 4096:
        return bytes(_h(salt, i) & 255 for i in range(n))
    unit = bytes(_h(salt, i) & 255 for i in range(4099))
    return (unit * (n // 4099 + 1))[:n]


class stdin_as:
    """context manager: sys.stdin is `obj` while a StdinAudioSource is being constructed"""

    def __init__(self, obj):
        self.obj = obj

    def __enter__(self):
        import sys

        self.old = sys.stdin
        if self.obj is not None:
            sys.stdin = self.obj
        return self

    def __exit__(self, *exc):
        import sys

        sys.stdin = self.old
        return False


def cleanup(paths):
    for p in paths:
        try:
            if callable(p):
                p()
            else:
                os.remove(p)
        except OSError:
            pass


def add_wav_trailer(path):
    """What many recorders and editors write: a LIST/INFO chunk after the audio (plus the RIFF pad byte when
    the data chunk has an odd size).  The audio of the file is still its data chunk."""
    import struct

    with open(path, "r+b") as fp:
        blob = fp.read()
        pad = b"\0" if (len(blob) - 44) % 2 else b""
        info = b"INFOISFT" + struct.pack("<I", 10) + b"vf-harness"
        extra = pad + b"LIST" + struct.pack("<I", len(info)) + info
        fp.seek(0, 2)
        fp.write(extra)
        fp.seek(4)
        fp.write(struct.pack("<I", len(blob) + len(extra) - 8))


def make_input(cfg, data):
    """-> (input, kwargs, cleanup list: paths or callables).  For the stdin kinds kwargs holds
    "_stdin": the object sys.stdin must be while the reader is constructed (pop it, use stdin_as)."""
    sr, sw, ch = cfg["sr"], cfg["sw"], cfg["ch"]
    kind = cfg["kind"]
    params = dict(sampling_rate=sr, sample_width=sw, channels=ch)
    if kind == "bytes":
        return data, params, []
    if kind == "stdin":
        from .c09 import _FakeStdin

        return "-", dict(params, _stdin=_FakeStdin(data)), []
    if kind == "stdin_pipe":
        from .c09 import _PipeStdin

        step = max(len(data) // 7, 1)
        pipe = _PipeStdin(data, [step + 1, max(step - 2, 1), 1, step + 3])
        return "-", dict(params, _stdin=pipe), [pipe.finish]
    if kind == "buffer":
        k = cfg.get("prepos") or 0
        if k:
            # a source object that was already partly consumed before the reader gets it:
            # the reader's audio is what remains
            src = BufferAudioSource(content(k, sw * ch, cfg["salt"] + 1) + data, sr, sw, ch)
            src.open()
            src.read(k)
            return src, {}, []
        return BufferAudioSource(data, sr, sw, ch), {}, []
    _ctr[0] += 1
    stem = os.path.join(tmpdir(), f"c10_{os.getpid()}_{_ctr[0]}")
    if kind == "raw_fifo":
        path = stem + ".fifo"
        step = max(len(data) // 6, 1)
        feeder = _FifoFeeder(path, data, [step + 1, max(step - 1, 1), 2, step + 2])
        return path, dict(params, large_file=True, audio_format="raw"), [feeder.finish, path]
    if kind == "raw_eager":
        path = stem + ".raw"
        with open(path, "wb") as fp:
            fp.write(data)
        return path, dict(params), [path]
    if kind == "wav_eager":
        path = stem + ".wav"
        with wave.open(path, "wb") as fp:
            fp.setframerate(sr)
            fp.setsampwidth(sw)
            fp.setnchannels(ch)
            fp.writeframes(data)
        return path, {}, [path]
    if kind == "raw_lazy":
        ext = cfg.get("rawname", ".raw")
        path = stem + ext
        with open(path, "wb") as fp:
            fp.write(data)
        extra = {} if ext == ".raw" else {"audio_format": "raw"}
        return path, dict(params, large_file=True, **extra), [path]
    if kind == "wav_lazy":
        path = stem + ".wav"
        with wave.open(path, "wb") as fp:
            fp.setframerate(sr)
            fp.setsampwidth(sw)
            fp.setnchannels(ch)
            fp.writeframes(data)
        if cfg.get("wav_trailer"):
            add_wav_trailer(path)
        return path, dict(large_file=True), [path]
    raise HarnessError(kind)


def resolve_max_read(cfg):
    """-> (max_read float or None, visible-sample limit or None)"""
    if cfg.get("mr") is None:
        return None, None
    k, frac = cfg["mr"]
    for f in (frac, 0):
        mr = (k + f) / cfg["sr"]
        n, razor = exact_round(mr, cfg["sr"])
        if not razor:
            return mr, n
    return None, None


def durations(cfg):
    """-> (block_dur, hop_dur or None) passed to AudioReader.  cfg['fb'] /
    cfg['fh'] add a fraction of a sample to the block / hop duration."""
    sr = cfg["sr"]
    bd = (cfg["B"] + cfg.get("fb", 0)) / sr
    hd = None if cfg.get("H") is None else (cfg["H"] + cfg.get("fh", 0)) / sr
    if cfg.get("hop_ulp_below") and hd is not None:
        hd = math.nextafter(bd, 0)
    return bd, hd


def sizes(cfg, reader, case):
    """Check block_size / hop_size against the exact floor (razor aware).
    -> (B, H) the model must use."""
    sr = cfg["sr"]
    B = cfg["B"]
    bd, hd = durations(cfg)
    fl, razor = exact_floor(bd, sr)
    ok = {fl, fl + 1} if razor else {fl}
    ok.discard(0)  # a reader that was accepted has blocks of at least one sample
    if reader.block_size not in ok:
        raise Violation(f"block_size {reader.block_size} for block_dur={bd!r} at {sr} Hz, expected {sorted(ok)}", case)
    if reader.block_dur != reader.block_size / sr:
        raise Violation(f"block_dur {reader.block_dur!r} != block_size/rate", case)
    Beff = reader.block_size
    if hd is None or hd == bd:
        if reader.hop_size != Beff:
            raise Violation(f"hop_size {reader.hop_size} without overlap, expected {Beff}", case)
        return Beff, None
    fl, razor = exact_floor(hd, sr)
    ok = {fl, fl + 1} if razor else {fl}
    if reader.hop_size not in ok:
        raise Violation(f"hop_size {reader.hop_size} for hop_dur={hd!r} at {sr} Hz, expected {sorted(ok)}", case)
    if reader.hop_size == Beff:
        # hop_dur < block_dur but the same number of samples: blocks simply follow one another
        return Beff, None
    return Beff, reader.hop_size


def check_case(case, rec):
    cfg = case
    sr, sw, ch, N = cfg["sr"], cfg["sw"], cfg["ch"], cfg["N"]
    bps = sw * ch
    data = content(N, bps, cfg["salt"])
    classes = {"kind_" + cfg["kind"]}
    inp, kw, paths = make_input(cfg, data)
    try:
        if cfg.get("reject"):
            how = cfg["reject"]
            if how == "one_sample_float":
                # exactly 1/rate seconds at a rate where the float product (1/rate)*rate falls short of 1: either the
                # reader is refused, or it has one-sample blocks - never blocks of zero samples
                sr_ = cfg["odd_rate"]
                data_ = content(cfg["N"], cfg["sw"] * cfg["ch"], cfg["salt"])
                try:
                    rd = auditok.AudioReader(data_, block_dur=1 / sr_, sampling_rate=sr_, sample_width=cfg["sw"], channels=cfg["ch"])
                except ValueError:
                    rec.note(case, True, {"rejected", "block_of_one_over_rate"}, out="ValueError")
                    return
                if rd.block_size != 1:
                    raise Violation(f"AudioReader(block_dur=1/{sr_}, rate {sr_}) accepted with block_size {rd.block_size}", case)
                rd.open()
                got_ = []
                while True:
                    b_ = rd.read()
                    if b_ is None:
                        break
                    got_.append(b_)
                if b"".join(got_) != data_:
                    raise Violation(f"one-sample blocks at {sr_} Hz do not add up to the input", case)
                rec.note(case, True, {"block_of_one_over_rate"}, out="accepted")
                return
            elif how == "hop_ulp_above":
                bd_ = (cfg["B"] + cfg.get("fb", 0)) / sr
                args = dict(block_dur=bd_, hop_dur=math.nextafter(bd_, math.inf))
            elif how == "tiny_block":
                args = dict(block_dur=0.4 / sr)
            elif how == "zero_block":
                args = dict(block_dur=0)
            else:
                args = dict(block_dur=cfg["B"] / sr, hop_dur=(cfg["B"] + cfg["extra"]) / sr)
                if not Fraction(args["hop_dur"]) > Fraction(args["block_dur"]):
                    raise HarnessError("hop not above block")
            try:
                with stdin_as(kw.pop("_stdin", None)):
                    auditok.AudioReader(inp, **args, **kw)
            except ValueError:
                rec.note(case, True, classes | {"rejected"}, out="ValueError")
                return
            raise Violation(f"AudioReader accepted {how} {args}", case)
        mr, limit = resolve_max_read(cfg)
        bd, hd = durations(cfg)
        args = dict(block_dur=bd)
        if hd is not None:
            args["hop_dur"] = hd
        if mr is not None:
            args["max_read"] = mr
        with stdin_as(kw.pop("_stdin", None)):
            reader = auditok.AudioReader(inp, **args, **kw)
        B, H = sizes(cfg, reader, case)
        if cfg.get("fb") or cfg.get("fh"):
            classes.add("fractional_durations")
            if hd is not None and hd < bd and H is None:
                classes.add("hop_lt_block_same_samples")
        if H == 0:
            rec.extra["razor_hop0_skipped"] += 1
            return
        if (reader.sr, reader.sw, reader.ch) != (sr, sw, ch):
            raise Violation("reader parameters differ from the source's", case)
        spans, V = block_model(N, B, H, limit)
        exp = [data[a * bps: b * bps] for a, b in spans]
        reader.open()
        got = []
        for i in range(len(exp) + cfg["over"]):
            if cfg.get("reopen_after") is not None and i == cfg["reopen_after"]:
                reader.open()  # a redundant open() of an open reader (split() does that to readers it is handed)
                classes.add("redundant_open_mid_stream")
            got.append(reader.read())
        consumed = inp.position - (cfg.get("prepos") or 0) if cfg["kind"] == "buffer" else None
        reader.close()
        want = exp + [None] * cfg["over"]
        if got != want:
            k = next(i for i, (g, w) in enumerate(zip(got, want)) if g != w)
            raise Violation(
                f"read #{k} returned {None if got[k] is None else str(len(got[k]) // bps) + ' samples'}"
                f"{'' if got[k] is None or want[k] is None or len(got[k]) != len(want[k]) else ' (wrong content)'}, "
                f"model says {None if want[k] is None else 'samples ' + str(spans[k])} "
                f"(N={N}, visible={V}, block={B}, hop={H}, max_read={mr!r})", case)
        if consumed is not None and consumed != V:
            # "never more": a buffer source tells how many samples were pulled out of it
            raise Violation(f"{consumed} samples were pulled from the source, the visible data has {V} "
                            f"(N={N}, block={B}, hop={H}, max_read={mr!r})", case)
        nt = False
        if H is not None and len(exp) >= 3:
            classes.add("overlap_3_blocks")
            nt = True
        if limit is not None and limit < N and limit % B:
            classes.add("max_read_inside_block")
            nt = True
        if V < B:
            classes.add("visible_shorter_than_block")
            nt = True
        if V == 0 and H is not None:
            classes.add("empty_visible_with_overlap")
        if cfg["over"] >= 2:
            classes.add("over_reads")
        if cfg.get("prepos") and cfg["kind"] == "buffer":
            classes.add("source_already_partly_consumed")
        if len(data) > 8192:
            classes.add("more_than_one_io_buffer")
        if B > 2**16:
            classes.add("block_longer_than_65536_samples")
        rec.note(case, nt, classes, out=[list(s) for s in spans])
    finally:
        cleanup(paths)


def explicit_cases():
    base = dict(sr=10, sw=2, ch=2, N=23, B=5, H=2, mr=None, kind="bytes", over=3, salt=1)
    return [
        base,
        dict(base, N=0),
        dict(base, mr=[0, 0]),
        dict(base, mr=[-2, 0]), dict(base, mr=[-1, 0.25], kind="raw_lazy", H=None), dict(base, mr=[-4, 0], kind="stdin"),
        dict(base, kind="wav_lazy", mr=[13, 0.25]),
        dict(base, kind="raw_lazy", H=None, N=3),
        dict(base, kind="buffer", H=5, mr=[40, 0]),
        dict(base, H=5, fb=0.5, fh=0.0),
        dict(base, kind="buffer", prepos=4, mr=[11, 0]),
        dict(base, kind="stdin", mr=[11, 0.25]),
        dict(base, kind="stdin_pipe", N=40, H=None),
        dict(base, kind="stdin_pipe", N=37, mr=[30, 0]),
        dict(base, kind="raw_fifo", N=41, H=None),
        dict(base, kind="wav_lazy", sr=48000, sw=2, ch=1, N=200017, B=70000, H=None),
        dict(base, kind="stdin", sr=48000, sw=2, ch=2, N=150003, B=65537, H=None),
        dict(base, kind="stdin_pipe", sr=16000, sw=4, ch=2, N=140001, B=66000, H=33000),
        dict(base, kind="raw_lazy", sr=44100, sw=1, ch=1, N=200000, B=65536, H=None, mr=[140000, 0.5]),
        dict(base, kind="raw_lazy", rawname=".pcm", N=2500, B=127, H=None, sw=4, ch=3),
        dict(base, kind="raw_lazy", rawname="", N=1800, B=333, H=100, sw=2, ch=3),
        dict(base, kind="wav_lazy", N=2600, B=129, H=None, sw=2, ch=2, mr=[2000, 0.5]),
        dict(base, kind="raw_fifo", N=23, mr=[17, 0.5]),
        dict(base, H=2, fb=0.25, fh=0.75, kind="raw_lazy"),
        dict(base, reject="tiny_block"),
        dict(base, reject="zero_block"),
        dict(base, reject="hop_gt_block", extra=1),
        dict(base, reject="hop_ulp_above"),
    ] + [dict(base, reject="one_sample_float", odd_rate=r) for r in (49, 98, 103, 107, 161, 187, 196, 10, 16000)] + [
        dict(base, hop_ulp_below=True, N=40),
        dict(base, kind="buffer", mr=[13, 0.5], reopen_after=2),
        dict(base, kind="wav_lazy", mr=[12, 0], reopen_after=1, H=None),
    ]


@st.composite
def strategy(draw, maxN):
    sr = draw(st.sampled_from([8, 10, 16, 100, 1000, 8000, 16000, 44100]))
    sw = draw(st.sampled_from([1, 2, 4]))
    ch = draw(st.integers(1, 3))
    B = draw(st.integers(1, 12))
    N = draw(st.one_of(st.integers(0, 3), st.integers(0, maxN), st.integers(0, B)))
    cfg = dict(sr=sr, sw=sw, ch=ch, N=N, B=B, kind=draw(st.sampled_from(KINDS)),
               over=draw(st.integers(1, 5)), salt=draw(st.integers(0, 10**6)))
    r = draw(st.integers(0, 19))
    if r == 0:
        cfg["reject"] = draw(st.sampled_from(["tiny_block", "zero_block", "hop_gt_block", "hop_ulp_above"]))
        cfg["extra"] = draw(st.integers(1, 3))
        return cfg
    cfg["H"] = draw(st.one_of(st.none(), st.just(B), st.integers(1, B)))
    if draw(st.integers(0, 2)) == 0:
        # durations that are not a whole number of samples (hop_dur <= block_dur kept)
        cfg["fb"] = draw(st.sampled_from([0.25, 0.5, 0.75]))
        if cfg["H"] is not None:
            cfg["fh"] = draw(st.sampled_from([0, 0.25, 0.5, 0.75]))
            if cfg["H"] == B and cfg["fh"] > cfg["fb"]:
                cfg["fh"] = draw(st.sampled_from([0, cfg["fb"]]))
    cfg["mr"] = draw(st.one_of(st.none(), st.tuples(st.integers(0, N + 10), st.sampled_from([0, 0.25, 0.5, 0.75])).map(list),
                               st.tuples(st.integers(0, N + 10), st.sampled_from([0, 0.25, 0.5, 0.75])).map(list),
                               st.tuples(st.integers(-6, -1), st.sampled_from([0, 0.25])).map(list)))  # negative: nothing to read
    if cfg["kind"] == "buffer" and draw(st.booleans()):
        cfg["prepos"] = draw(st.integers(1, 9))
    cfg["rawname"] = draw(st.sampled_from([".raw", ".raw", ".pcm", "", ".dat"]))
    cfg["reopen_after"] = draw(st.one_of(st.none(), st.integers(0, 6)))
    if cfg["H"] is not None and draw(rarely(8)):
        cfg["hop_ulp_below"] = True  # hop_dur one ulp short of block_dur: still an overlapping reader
    if draw(rarely(40)):
        # blocks longer than 2**16 samples (1.5 s at 48 kHz) / 2**16 bytes
        cfg["B"] = draw(st.sampled_from([65535, 65536, 65537, 70000, 33000]))
        cfg["N"] = draw(st.integers(cfg["B"] * 2, cfg["B"] * 3 + 17))
        cfg["H"] = draw(st.sampled_from([None, None, cfg["B"] // 2, cfg["B"] - 1]))
        cfg["mr"] = draw(st.one_of(st.none(), st.tuples(st.integers(cfg["B"], cfg["N"]), st.sampled_from([0, 0.5])).map(list)))
        cfg["sr"] = draw(st.sampled_from([8000, 16000, 44100, 48000]))
        cfg["ch"] = min(cfg["ch"], 2)
        cfg.pop("fb", None)
        cfg.pop("fh", None)
        cfg.pop("prepos", None)
        return cfg
    if cfg["kind"] in ("raw_lazy", "wav_lazy", "bytes") and draw(rarely(12)):
        # more data than one 4096 / 8192-byte io buffer, block sizes that do not divide it
        cfg["N"] = draw(st.integers(1500, 3000))
        cfg["B"] = draw(st.sampled_from([7, 11, 100, 127, 129, 333, 1000]))
        cfg["H"] = draw(st.one_of(st.none(), st.integers(1, cfg["B"])))
        cfg["mr"] = draw(st.one_of(st.none(), st.tuples(st.integers(1000, 3100), st.sampled_from([0, 0.5])).map(list)))
        cfg.pop("fb", None)
        cfg.pop("fh", None)
    return cfg


def jobs(tier, seed):
    b = BOUNDS[tier]
    return [{"name": f"hyp-{i}", "seed": seed * 1000 + i, "n": b["n"], "maxN": b["maxN"]} for i in range(16)]


def run_job(job, rec):
    hyp_run(sys.modules[__name__], strategy(job["maxN"]), rec, job["seed"], job["n"])
