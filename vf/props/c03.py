"""C03 - silence tolerance inside tokens."""

import sys

from .. import tok, tokjobs
from ..common import Violation

ID = "C03"
LEVEL = "exploration"
RULE = (
    "Cases as C01 (pattern x accepted six-parameter tuple x frame kind x delivery), with the "
    "validator re-applied by the harness to the frames of every delivered token. Oracle: walking "
    "the tokens with a run counter that is NOT reset between a token cut at max_length and its "
    "immediate continuation, no run of invalid frames exceeds max(sil,0) (max(sil,init_max_silence,0) "
    "when init_min>1); every token holds a valid frame; a token starts with a valid frame unless it "
    "is an immediate continuation; with dropping on a token shorter than max_length ends with a valid "
    "frame. Non-trivial = some token contains an invalid frame."
)
RULE += (
    ' Exhaustive reuse part: every accepted parameter tuple with max_length <= 3 (thorough: 4) x every earlier stream of 1..5 (6) frames x how it was left (list run, generator unstarted / advanced one token and abandoned, two generators requested up front) x every later stream of 1..4 (5) frames: the used tokenizer must satisfy the property like a fresh one.'
)
MUST_HIT = ["run_straddles_cut", "ended_by_excess_silence_drop", "init_phase_silence"]
ASSUMPTIONS = [
    "frame kind 'stateful': a validator whose k-th answer is the k-th bit of the pattern (a validator with a memory, e.g. an adaptive threshold) - meaningful only if the tokenizer consults the validator once per frame, in stream order","a token has max_length frames iff it was cut"]

BOUNDS = {
    "quick": dict(L=10, M=3, hyp_examples=1200, maxlen=64, maxmax=8),
    "thorough": dict(L=14, M=4, hyp_examples=25000, maxlen=300, maxmax=24),
}
INITS = ((0, 0), (2, 0), (2, 1), (2, 2))


def check_case(case, rec):
    pat, p, kind = case["pat"], case["p"], case.get("kind", "obj")
    _mn, mx, sil, imin, isil, mode = p
    bound = max(sil, 0) if imin <= 1 else max(sil, isil, 0)
    drop = bool(mode & 4)
    _frames, toks = tok.run_case(case)
    classes = set()
    nt = False
    prev = None
    run = 0
    for fr, s, e in toks:
        cont = prev is not None and s == prev[1] + 1 and (prev[1] - prev[0] + 1) == mx
        if not cont:
            run = 0
        carried = run
        val = [bool(tok.frame_valid(f, kind)) for f in fr]
        if not any(val):
            raise Violation(f"token ({s},{e}) holds no valid frame", case)
        if not val[0] and not cont:
            raise Violation(f"token ({s},{e}) starts with an invalid frame and is not a continuation", case)
        for k, v in enumerate(val):
            if v:
                run = 0
            else:
                run += 1
                nt = True
                if run > bound:
                    raise Violation(
                        f"token ({s},{e}): run of {run} invalid frames at position {s + k} "
                        f"(carried {carried} across the cut) exceeds {bound}", case)
                if carried and k < run:
                    classes.add("run_straddles_cut")
        if drop and len(fr) < mx and not val[-1]:
            raise Violation(f"dropping on: uncut token ({s},{e}) ends with an invalid frame", case)
        if drop and len(fr) < mx and pat[e + 1: e + 2 + max(sil, 0)] == "0" * (max(sil, 0) + 1) and sil > 0:
            classes.add("ended_by_excess_silence_drop")
        if imin > 1 and isil > 0 and not all(val[:imin]):
            classes.add("init_phase_silence")
        prev = (s, e)
    rec.note(case, nt, classes, out=tok.spans(toks))


def explicit_cases():
    return [
        {"pat": "1100110", "p": [1, 3, 2, 0, 0, 0], "kind": "obj", "deliv": "list"},
        {"pat": "110011000", "p": [1, 6, 2, 0, 0, 4], "kind": "char", "deliv": "gen"},
        {"pat": "1011100", "p": [1, 6, 1, 2, 1, 0], "kind": "obj", "deliv": "cb"},
        {"pat": "10011", "p": [1, 4, 0, 3, 2, 0], "kind": "char", "deliv": "list"},
    ]


def jobs(tier, seed):
    return tokjobs.std_jobs(tier, seed, BOUNDS)


def run_job(job, rec):
    tokjobs.std_run_job(sys.modules[__name__], job, rec, INITS)


def extra_coverage(tier):
    b = BOUNDS[tier]
    return {
        "exhaustive_part": f"all patterns of length 0..{b['L']} x all accepted (min,max,sil,mode), max_length<={b['M']}, inits {list(INITS)}",
        "max_stream_len": b["maxlen"], "max_max_length": b["maxmax"],
    }


def optimized_cases():
    for n in range(0, 8):
        yield from tokjobs.exh_cases(n, 0, 1 << n, 3, INITS)
