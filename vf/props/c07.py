"""C07 - the energy validator: active iff 10*log10(mean square) >= threshold."""

import math
import sys
from decimal import Decimal

from hypothesis import strategies as st

from .. import oracles
from ..audio import MAXV, MIX, _h
from ..common import HarnessError, Violation, hyp_run, import_auditok
from ..gen import rarely

import_auditok()
from auditok.util import AudioEnergyValidator  # noqa: E402

ID = "C07"
LEVEL = "exploration"
RULE = (
    "Cases = PCM window (1..64 samples, thorough ..2048; width 1/2/4; 1-4 channels; sample values from a "
    "boundary-biased mixture: type min/max, 0, +-1, uniform, small band) x channel selection (None, 'any', "
    "'mix', 'avg', 'average', every int in [-ch-2, ch+1], unknown names) x two thresholds (uniform in "
    "[-250,250] or oracle energy +- delta, delta in {1e-6,1e-3,0.5,3}), plus exact-boundary constructions "
    "(constant |sample| = 10^k so the energy is exactly 20k dB: threshold 20k must be active, nextafter(20k) "
    "inactive; all-zero windows against -200 and nextafter(-200,0)). Oracle: exact rational mean square -> dB "
    "with 50 digits (max over channels / per-sample mean / selected channel); decision compared whenever "
    "|E-thr| > 1e-9; ValueError iff ch>1 and index outside [-ch,ch) or unknown name; mono ignores the selection; "
    "monotone in the threshold. Non-trivial = multichannel window where two selection modes disagree at the "
    "threshold, or |E-thr| < 3 dB, or width != 2."
)
MUST_HIT = ["boundary_sw1", "boundary_sw2", "boundary_sw4", "any_vs_mix_disagree", "negative_index",
            "reject_index", "reject_name", "mono_ignores_selection", "zero_window", "window_length_around_power_of_two", "typed_or_other_container", "window_of_100000_samples",
            "validator_sequence", "same_object_twice", "bytearray_refilled_in_place"]
ASSUMPTIONS = [
    "for |x|=10^k constant windows numpy's sqrt/mean/log10 are exact on this build (verified at design time; a mismatch would show as a violation of the boundary cases, to be investigated)",
    "decision not compared when the exact energy lies within 1e-9 dB of the threshold",
]
BOUNDS = {"quick": dict(n=700, maxn=64), "thorough": dict(n=5000, maxn=2048)}
NAMES_OK = (None, "any") + MIX
NAMES_BAD = ("left", "", "MIX", "all", "0")
POWS = {1: 2, 2: 4, 4: 9}


def build(case):
    sw, ch = case["sw"], case["ch"]
    if "segments" in case:
        import array

        vals = []
        for v_, n_ in case["segments"]:
            vals += [v_] * (n_ * ch)
        return array.array({1: "b", 2: "h", 4: "i"}[sw], vals).tobytes()
    if "huge" in case:
        # a very long window: a short motif repeated (sums of squares beyond 2**31 / 2**63)
        motif, n = case["huge"]
        vals = (motif * (n * ch // len(motif) + 1))[: n * ch]
        import array

        return array.array({1: "b", 2: "h", 4: "i"}[sw], vals).tobytes()
    if "pow" in case:
        a = 10 ** case["pow"]
        n = case["n"]
        vals = []
        for i in range(n):
            sg = -1 if _h(case["salt"], i) & 1 else 1
            vals += [sg * a] * ch
    elif case.get("zero"):
        vals = [0] * (case["n"] * ch)
    else:
        vals = case["vals"]
    if len(vals) % ch or not vals:
        raise HarnessError("bad window")
    return b"".join(int(v).to_bytes(sw, "little", signed=True) for v in vals)


# out of range by far: beyond int32 / int64 / uint64, and beyond anything a fixed-size integer holds
HUGE_INDEXES = (2**31, -2**31 - 1, 2**63 - 1, 2**63, 2**64 - 1, 2**64, -2**63, -2**63 - 1, 10**30, -10**30, 255, 256, 65536)


def expect_reject(ch, uc):
    if ch == 1:
        return False
    if uc in NAMES_OK:
        return False
    if isinstance(uc, int):
        return not (-ch <= uc < ch)
    return True


def wrap(data, sw, kind):
    """the window as another bytes-like container (the repository's own tests pass array('h'))"""
    if kind in (None, "bytes"):
        return data
    if kind == "bytearray":
        return bytearray(data)
    if kind == "memoryview":
        return memoryview(data)
    import array

    if kind in ("array_B", "array_b"):
        # raw audio held in an array of (un)signed bytes, whatever the sample width
        return array.array(kind[-1], data)
    if kind == "numpy_uint8":
        import numpy as np

        return np.frombuffer(data, dtype=np.uint8)
    code = {1: "b", 2: "h", 4: "i"}[sw]
    if kind == "array":
        return array.array(code, data)
    if kind == "memoryview_cast":
        return memoryview(data).cast(code)
    if kind == "numpy":
        import numpy as np

        return np.frombuffer(data, dtype={1: "<i1", 2: "<i2", 4: "<i4"}[sw])
    raise HarnessError(kind)


def verdict(thr, sw, ch, uc, data, case):
    """-> ('value', bool) or ('ValueError', exc)"""
    import contextlib
    import warnings

    import numpy as np

    strict = contextlib.ExitStack()
    if case.get("strict_numeric"):
        # a program that turns numeric warnings into errors (np.seterr(all="raise"), -W error): the verdict is the same
        strict.enter_context(np.errstate(all="raise"))
        cm = warnings.catch_warnings()
        strict.enter_context(cm)
        warnings.simplefilter("error")
    try:
        with strict:
            v = AudioEnergyValidator(thr, sw, ch, use_channel=uc)
            r = v.is_valid(wrap(data, sw, case.get("container")))
    except ValueError as exc:
        return "ValueError", exc
    try:
        return "value", bool(r)
    except Exception as exc:  # noqa: BLE001
        raise Violation(f"verdict {r!r} cannot be used as a truth value: {exc}", case)


def resolve_thr(spec, E):
    kind, x = spec
    if kind == "abs":
        return float(x)
    return float(E) + x


CRC_PAIR = ("03000400feff0400000001000000fdff", "284e294e244e284e284e204e204e983a")  # equal length, equal crc32


def check_threads(case, rec):
    """Two independent validators with the same parameters, each used by its own thread on its own
    windows: every verdict must be what a single thread gets."""
    import threading

    sw, ch, uc = case["sw"], case["ch"], case["uc"]
    quiet = build({"sw": sw, "ch": ch, "vals": case["quiet"]})
    loud = build({"sw": sw, "ch": ch, "vals": case["loud"]})
    thr = case["thr"]
    want = {id(quiet): bool(AudioEnergyValidator(thr, sw, ch, use_channel=uc).is_valid(quiet)),
            id(loud): bool(AudioEnergyValidator(thr, sw, ch, use_channel=uc).is_valid(loud))}
    if want[id(quiet)] or not want[id(loud)]:
        raise HarnessError("thread member mis-built")
    wrong = []

    def work(win):
        v = AudioEnergyValidator(thr, sw, ch, use_channel=uc)
        for _ in range(case["n"]):
            if bool(v.is_valid(win)) != want[id(win)]:
                wrong.append(win is loud)
                return

    old = sys.getswitchinterval()
    sys.setswitchinterval(1e-6)
    try:
        ts = [threading.Thread(target=work, args=(w,)) for w in (quiet, loud, quiet, loud)]
        for t in ts:
            t.start()
        for t in ts:
            t.join(60)
    finally:
        sys.setswitchinterval(old)
    rec.note(case, True, {"validators_in_parallel_threads"}, out="ok")
    if wrong:
        raise Violation("a validator used in one thread gave another verdict while a second validator was used in another thread "
                        f"(window {'loud' if wrong[0] else 'quiet'}, use_channel={uc!r})", case)


def check_sequence(case, rec):
    """One validator instance judging a sequence of windows: every verdict must be what a fresh
    validator says about that content - also for the same object handed over twice, for a bytearray
    refilled in place, and for two different windows that share length and CRC-32."""
    sw, ch, uc, thr = case["sw"], case["ch"], case.get("uc"), case["thr"]
    v = AudioEnergyValidator(thr, sw, ch, use_channel=uc)
    buf = None
    classes = {"validator_sequence"}
    verdicts = []
    for step in case["seq"]:
        kind, payload = step
        raw = bytes.fromhex(payload) if isinstance(payload, str) else b"".join(int(x).to_bytes(sw, "little", signed=True) for x in payload)
        if kind == "same_twice":
            objs = [raw, raw]
            classes.add("same_object_twice")
        elif kind == "refill":
            if buf is None or len(buf) != len(raw):
                buf = bytearray(len(raw))
            buf[:] = raw          # the caller's reusable buffer, new content
            objs = [buf]
            classes.add("bytearray_refilled_in_place")
        else:
            objs = [raw]
        E = oracles.energy_db(raw, sw, ch, uc if ch > 1 else None)
        for o in objs:
            got = bool(v.is_valid(o))
            verdicts.append(got)
            if abs(E - Decimal(thr)) > Decimal("1e-9") and got != (E >= Decimal(thr)):
                raise Violation(
                    f"verdict {got} for a window of {float(E):.6f} dB at threshold {thr} (step {len(verdicts)} of a "
                    f"sequence judged by one validator: {kind})", case)
    rec.note(case, len(set(verdicts)) > 1, classes, out=verdicts)


def check_case(case, rec):
    if "threads" in case:
        return check_threads(case, rec)
    if "seq" in case:
        return check_sequence(case, rec)
    sw, ch, uc = case["sw"], case["ch"], case.get("uc")
    data = build(case)
    classes = set()
    if expect_reject(ch, uc):
        kind, val = verdict(0.0, sw, ch, uc, data, case)
        classes.add("reject_index" if isinstance(uc, int) else "reject_name")
        rec.note(case, sw != 2, classes, out=kind)
        if kind != "ValueError":
            raise Violation(f"use_channel={uc!r} with {ch} channels accepted (verdict {val})", case)
        return
    E = oracles.energy_db(data, sw, ch, uc if ch > 1 else None)
    if ch == 1 and uc not in (None, "any"):
        classes.add("mono_ignores_selection")
    if isinstance(uc, int) and uc < 0 and ch > 1:
        classes.add("negative_index")
    if "pow" in case or case.get("zero"):
        exact = 20.0 * case["pow"] if "pow" in case else -200.0
        if abs(E - Decimal(exact)) > Decimal("1e-30"):
            raise HarnessError(f"boundary construction off: E={E} exact={exact}")
        up = math.nextafter(exact, math.inf)
        classes.add(f"boundary_sw{sw}" if "pow" in case else "zero_window")
        for thr, want in ((exact, True), (up, False), (exact - 1e-3, True), (exact + 1e-3, False)):
            kind, got = verdict(thr, sw, ch, uc, data, case)
            if kind != "value" or got != want:
                raise Violation(
                    f"energy exactly {exact} dB, threshold {thr!r}: verdict {got!r}, expected {want}", case)
        rec.note(case, True, classes, out=str(E))
        return
    t1 = resolve_thr(case["thr"], E)
    t2 = resolve_thr(case["thr2"], E)
    got = {}
    for thr in (t1, t2):
        kind, val = verdict(thr, sw, ch, uc, data, case)
        if kind != "value":
            raise Violation(f"valid selection {uc!r} ({ch} channels) raised {val!r}", case)
        got[thr] = val
        if abs(E - Decimal(thr)) > Decimal("1e-9"):
            want = E >= Decimal(thr)
            if val != want:
                raise Violation(
                    f"energy {float(E):.12f} dB vs threshold {thr!r} (use_channel={uc!r}): verdict {val}, expected {want}",
                    case)
    lo, hi = min(t1, t2), max(t1, t2)
    if got[hi] and not got[lo]:
        raise Violation(f"active at threshold {hi!r} but inactive at lower threshold {lo!r}", case)
    if case.get("magic_len"):
        classes.add("window_length_around_power_of_two")
    if case.get("container") not in (None, "bytes"):
        classes.add("typed_or_other_container")
    if len(data) // (sw * ch) >= 100000:
        classes.add("window_of_100000_samples")
    near = abs(float(E) - t1) < 3
    disagree = False
    if ch > 1:
        es = {m: oracles.energy_db(data, sw, ch, m) for m in [None, "mix"] + list(range(ch))}
        verdicts = {m: e >= Decimal(t1) for m, e in es.items()}
        disagree = len(set(verdicts.values())) > 1
        if verdicts[None] != verdicts["mix"]:
            classes.add("any_vs_mix_disagree")
    rec.note(case, disagree or near or sw != 2, classes, out=[float(E), got[t1], got[t2]])


def explicit_cases():
    out = []
    for sw in (1, 2, 4):
        for k in range(0, POWS[sw] + 1):
            for ch, uc in ((1, None), (2, None), (3, "mix"), (2, -1)):
                out.append({"sw": sw, "ch": ch, "n": 5, "pow": k, "salt": k, "uc": uc})
        out.append({"sw": sw, "ch": 2, "n": 3, "zero": True, "uc": "avg"})
        out.append({"sw": sw, "ch": 1, "n": 1, "zero": True, "uc": None})
    out += [
        {"sw": 2, "ch": 2, "vals": [1000, 0, -1000, 0, 1000, 0], "uc": None, "thr": ["abs", 55.0], "thr2": ["abs", 10.0]},
        {"sw": 2, "ch": 2, "vals": [1000, -1000, -1000, 1000], "uc": "mix", "thr": ["abs", 55.0], "thr2": ["rel", 0.5]},
        {"sw": 2, "ch": 2, "vals": [1000, -1000, -1000, 1000], "uc": -2, "thr": ["abs", 55.0], "thr2": ["rel", -0.5]},
        {"sw": 1, "ch": 1, "vals": [-128, 127], "uc": "left", "thr": ["rel", 1e-6], "thr2": ["rel", -1e-6]},
        {"sw": 2, "ch": 2, "vals": [1, 2], "uc": 2, "thr": ["abs", 0.0], "thr2": ["abs", 0.0]},
        {"sw": 2, "ch": 3, "vals": [1, 2, 3], "uc": -4, "thr": ["abs", 0.0], "thr2": ["abs", 0.0]},
        {"sw": 4, "ch": 2, "vals": [1, 2], "uc": "left", "thr": ["abs", 0.0], "thr2": ["abs", 0.0]},
        {"sw": 1, "ch": 1, "huge": [[-128], 140000], "uc": None, "thr": ["abs", 30.0], "thr2": ["rel", -0.5]},
        # not uniform: 65536 silent samples, then a hundred loud ones (41.1 dB overall)
        {"sw": 2, "ch": 1, "segments": [[0, 65536], [3000, 100]], "uc": None, "thr": ["rel", 0.5], "thr2": ["rel", -0.5]},
        {"sw": 1, "ch": 2, "segments": [[0, 131072], [100, 64], [-100, 64]], "uc": "mix", "thr": ["rel", 0.5], "thr2": ["rel", -0.5]},
        {"sw": 2, "ch": 1, "seq": [["plain", CRC_PAIR[0]], ["plain", CRC_PAIR[1]], ["plain", CRC_PAIR[0]]], "uc": None, "thr": 50.0},
        {"sw": 2, "ch": 1, "seq": [["plain", CRC_PAIR[1]], ["plain", CRC_PAIR[0]]], "uc": None, "thr": 50.0},
        {"sw": 2, "ch": 2, "seq": [["same_twice", [100, -100, 90, 80]], ["same_twice", [20000, -20000, 15000, 9000]], ["refill", [1, 2, 3, 4]],
                                   ["refill", [30000, 30000, -30000, 30000]], ["refill", [0, 0, 0, 0]]], "uc": "mix", "thr": 60.0},
        {"sw": 1, "ch": 2, "huge": [[100, -100, 99, 3], 230000], "uc": None, "thr": ["rel", -1e-3], "thr2": ["abs", 0.0]},
        {"sw": 2, "ch": 1, "huge": [[-32768, 32767], 140000], "uc": None, "thr": ["rel", -1e-3], "thr2": ["rel", 0.5]},
        {"sw": 4, "ch": 2, "huge": [[-2147483648, 2147483647, 5, -7], 100000], "uc": "mix", "thr": ["rel", -1e-3], "thr2": ["rel", 3.0]},
        {"sw": 2, "ch": 2, "vals": [1000, -1000, 900, 5, -20, 30], "uc": 1, "thr": ["rel", -0.5], "thr2": ["rel", 0.5], "container": "array"},
        {"sw": 4, "ch": 1, "vals": [100000, -5, 7, 12], "uc": None, "thr": ["rel", -0.5], "thr2": ["rel", 0.5], "container": "memoryview_cast"},
        {"sw": 2, "ch": 2, "vals": [300, -2, -300, 5] * 512, "uc": None, "thr": ["rel", -0.5], "thr2": ["rel", 0.5], "magic_len": 1024},
        {"sw": 1, "ch": 1, "vals": [100, -100, 7] * 85 + [100, -100], "uc": None, "thr": ["abs", 30.0], "thr2": ["rel", 1e-6], "magic_len": 257},
        {"threads": True, "sw": 2, "ch": 2, "uc": "mix", "thr": 50.0, "n": 3000, "quiet": [3, -2, 1, 4] * 40, "loud": [20000, 19000, -20000, -21000] * 40},
        {"threads": True, "sw": 2, "ch": 3, "uc": "avg", "thr": 40.0, "n": 3000, "quiet": [1, 1, -1] * 50, "loud": [9000, 9500, 8000] * 50},
        {"threads": True, "sw": 1, "ch": 2, "uc": None, "thr": 20.0, "n": 3000, "quiet": [1, 0] * 64, "loud": [100, -90] * 64},
        {"sw": 2, "ch": 1, "vals": [1000, -1000, 900, 5, -20, 30], "uc": None, "thr": ["rel", -0.5], "thr2": ["rel", 0.5], "container": "array_B"},
        {"sw": 4, "ch": 2, "vals": [100000, -5, 7, 12], "uc": "mix", "thr": ["rel", -0.5], "thr2": ["rel", 0.5], "container": "array_b"},
        {"sw": 2, "ch": 2, "vals": [300, -2, -300, 5], "uc": 1, "thr": ["rel", -0.5], "thr2": ["rel", 0.5], "container": "numpy_uint8"},
        {"sw": 2, "ch": 2, "vals": [0, 0, 0, 0], "uc": "mix", "thr": ["abs", -200.0], "thr2": ["abs", -199.0], "strict_numeric": True},
        {"sw": 2, "ch": 2, "vals": [500, -500, -500, 500], "uc": "mix", "thr": ["abs", -200.0], "thr2": ["abs", 0.0], "strict_numeric": True},
        {"sw": 1, "ch": 3, "vals": [0, 5, 0, 0, -7, 0], "uc": 0, "thr": ["abs", -200.0], "thr2": ["abs", 10.0], "strict_numeric": True},
    ] + [{"sw": 2, "ch": 2, "vals": [100, -100, 7, 9], "uc": h, "thr": ["abs", 30.0], "thr2": ["rel", 1.0]} for h in HUGE_INDEXES] + [
    ]
    return out


def sample_value(sw):
    m = MAXV[sw]
    return st.one_of(
        st.sampled_from([-m - 1, m, 0, 1, -1]),
        st.integers(-m - 1, m),
        st.integers(-40, 40),
    )


def thr_spec():
    return st.one_of(
        st.tuples(st.just("abs"), st.floats(-250, 250, allow_nan=False)),
        st.tuples(st.just("rel"), st.sampled_from([1e-6, -1e-6, 1e-3, -1e-3, 0.5, -0.5, 3.0, -3.0])),
    ).map(list)


@st.composite
def strategy(draw, maxn):
    sw = draw(st.sampled_from([1, 2, 4]))
    ch = draw(st.integers(1, 4))
    if draw(rarely(12)):
        n = draw(st.integers(1, 6))
        win = st.lists(sample_value(sw), min_size=n * ch, max_size=n * ch)
        steps = draw(st.lists(st.tuples(st.sampled_from(["plain", "same_twice", "refill", "refill"]), win).map(list),
                              min_size=2, max_size=6))
        return {"sw": sw, "ch": ch, "seq": steps, "uc": draw(st.sampled_from([None, "mix", 0])) if ch > 1 else None,
                "thr": draw(st.floats(-20, 20 * sw * 2 + 10, allow_nan=False))}
    uc = draw(st.one_of(
        st.sampled_from(NAMES_OK), st.integers(-ch - 2, ch + 1), st.integers(-ch, ch - 1),
        st.sampled_from(NAMES_OK), st.sampled_from(NAMES_BAD), st.sampled_from(HUGE_INDEXES)))
    how = draw(st.integers(0, 11))
    if how == 0:
        return {"sw": sw, "ch": ch, "n": draw(st.integers(1, 40)), "pow": draw(st.integers(0, POWS[sw])),
                "salt": draw(st.integers(0, 10**6)), "uc": uc}
    if how == 1:
        return {"sw": sw, "ch": ch, "n": draw(st.integers(1, 40)), "zero": True, "uc": uc}
    n = draw(st.integers(1, 8) | st.integers(1, maxn))
    if draw(rarely(25)):
        # window lengths around powers of two, filled by repeating a short drawn motif
        n = draw(st.sampled_from([255, 256, 257, 1023, 1024, 1025, 4095, 4096, 4097]))
        motif = draw(st.lists(sample_value(sw), min_size=ch, max_size=ch * 5).filter(lambda m: len(m) % ch == 0))
        vals = (motif * (n * ch // len(motif) + 1))[: n * ch]
        return {"sw": sw, "ch": ch, "vals": vals, "uc": uc, "thr": draw(thr_spec()), "thr2": draw(thr_spec()), "magic_len": n}
    if how == 2:  # channels with very different levels: selection modes disagree
        big = draw(st.integers(MAXV[sw] // 8, MAXV[sw]))
        loudch = draw(st.integers(0, ch - 1))
        vals = []
        for i in range(n):
            for c in range(ch):
                vals.append((big if (i + c) % 2 else -big) if c == loudch else draw(st.integers(-2, 2)))
    else:
        vals = draw(st.lists(sample_value(sw), min_size=n * ch, max_size=n * ch))
    return {"sw": sw, "ch": ch, "vals": vals, "uc": uc, "thr": draw(thr_spec()), "thr2": draw(thr_spec()),
            "container": draw(st.sampled_from(["bytes", "bytes", "bytearray", "memoryview", "array", "memoryview_cast", "numpy",
                                                "array_B", "array_b", "numpy_uint8"])),
            "strict_numeric": draw(st.booleans())}


def jobs(tier, seed):
    b = BOUNDS[tier]
    return [{"name": f"hyp-{i}", "seed": seed * 1000 + i, "n": b["n"], "maxn": b["maxn"]} for i in range(16)]


def run_job(job, rec):
    hyp_run(sys.modules[__name__], strategy(job["maxn"]), rec, job["seed"], job["n"])
