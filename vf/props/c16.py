"""C16 - region slicing follows Python slice semantics on whole samples."""

import contextlib
import math
import sys
from fractions import Fraction

from hypothesis import strategies as st

from ..common import Violation, hyp_run, import_auditok, run_cases
from ..gen import rarely
from .c10 import content

import_auditok()
import auditok  # noqa: E402

ID = "C16"
LEVEL = "exploration"
RULE = (
    "Exhaustive part: regions of 0..12 samples x width 1/2/4 x 1-3 channels (distinct sample contents) x every "
    "sample slice [a:b] with a,b in {None} U [-15,15]. Generated part: regions up to 40 samples x slices by samples "
    "(ints of any magnitude), by seconds (k/rate + eps, arbitrary floats up to 1e15, ints) and by milliseconds (ints), "
    "plus invalid indices (a step; float/str bounds for samples and millis, str for seconds). Oracle: bytes(region[a:b]) "
    "== b''.join(samples[a:b]) with Python list slicing, parameters unchanged, len == sample count, duration == "
    "len/rate; seconds[a:b] == region[trunc(a*rate) : round_half_even(b*rate)] computed in exact rationals (either "
    "neighbour accepted within 1e-9 of a rounding boundary); millis[a:b] == seconds[a/1000:b/1000]; TypeError for a "
    "step or wrong-typed bounds. Non-trivial = len >= 2, bytes per sample > 1 and a negative or out-of-range bound."
)
MUST_HIT = ["view_samples", "view_seconds", "view_millis", "region_carrying_a_start", "bound_with_thousands_of_digits", "slice_of_a_slice", "view_alias", "number_of_another_type", "type_error", "negative_bound", "out_of_range", "empty_region",
            "huge_int", "region_length_around_power_of_two", "view_of_temporary_region"]
ASSUMPTIONS = ["floats beyond 1e15 seconds are not generated (t*rate overflows the sample index space)",
               "the statement defines the milliseconds view through t/1000: integer millisecond bounds are generated up to 10**300 in "
               "magnitude, where t/1000 (and its product with the rate) is still a finite float; beyond that the unchanged tree raises "
               "OverflowError from that very division (samples / seconds views take ints of thousands of digits)"]
BOUNDS = {"quick": dict(n=700, maxlen=12), "thorough": dict(n=8000, maxlen=16)}


def unpack(v):
    if isinstance(v, dict):
        if "num" in v:
            # numbers that are neither int nor float: bounds of the wrong type
            import decimal
            import fractions

            import numpy as np

            kind, x = v["num"]
            return {"Fraction": lambda: fractions.Fraction(x).limit_denominator(1000), "Decimal": lambda: decimal.Decimal(str(x)),
                    "np.float32": lambda: np.float32(x), "np.float16": lambda: np.float16(x), "np.int64": lambda: np.int64(int(x)),
                    "np.int32": lambda: np.int32(int(x)), "complex": lambda: complex(x, 0), "bool": lambda: bool(x)}[kind]()
        if "pow10" in v:
            # an int with thousands of digits (beyond what int -> str conversion accepts by default)
            return (-1 if v["pow10"] < 0 else 1) * 10 ** abs(v["pow10"])
        return v["str"]
    return v


def candidates(q, mode):
    """exact target index for a rational q (mode 'trunc' or 'round') plus
    the neighbour allowed inside the razor."""
    if mode == "trunc":
        t = math.trunc(q)
        near = abs(q - round(q))
        out = {t}
        if q != round(q) and near <= Fraction(1, 10**9) * max(1, abs(q)):
            out.add(int(round(q)))
        return out
    r = int(round(q))
    fl = math.floor(q)
    half = abs((q - fl) - Fraction(1, 2))
    out = {r}
    if half <= Fraction(1, 10**9) * max(1, abs(q)):
        out |= {fl, fl + 1}
    return out


def check_threads(case, rec):
    """One region sliced by several threads at once, each with its own bounds: a region is immutable,
    every slice must be what a single thread gets."""
    import sys
    import threading

    sr, sw, ch, N = case["sr"], case["sw"], case["ch"], case["N"]
    bps = sw * ch
    data = content(N, bps, case["salt"])
    region = auditok.AudioRegion(data, sr, sw, ch)
    jobs_ = [tuple(x) for x in case["threads"]]
    want = {ab: data[ab[0] * bps: ab[1] * bps] for ab in jobs_}
    wrong = []

    def work(ab):
        for _ in range(case["n"]):
            if bytes(region[ab[0]: ab[1]]) != want[ab]:
                wrong.append(ab)
                return

    from ..common import preempt_every_line

    old = sys.getswitchinterval()
    sys.setswitchinterval(1e-6)
    try:
        with (preempt_every_line() if case.get("preempt") else contextlib.nullcontext()):
            ts = [threading.Thread(target=work, args=(ab,)) for ab in jobs_]
            for t in ts:
                t.start()
            for t in ts:
                t.join(120)
    finally:
        sys.setswitchinterval(old)
    rec.note(case, True, {"region_sliced_by_parallel_threads"} | ({"threads_preempted_at_every_line"} if case.get("preempt") else set()), out="ok")
    if wrong:
        raise Violation(f"region[{wrong[0][0]}:{wrong[0][1]}] returned other samples while other threads were slicing the same region", case)


def check_case(case, rec):
    if "threads" in case:
        return check_threads(case, rec)
    sr, sw, ch, N = case["sr"], case["sw"], case["ch"], case["N"]
    bps = sw * ch
    data = content(N, bps, case["salt"])
    samples = [data[i * bps: (i + 1) * bps] for i in range(N)]
    region = auditok.AudioRegion(data, sr, sw, ch) if case.get("start") is None else auditok.AudioRegion(data, sr, sw, ch, start=case["start"])
    view = case["view"]
    a, b = unpack(case["a"]), unpack(case["b"])
    step = case.get("step")
    classes = {"view_" + view}
    if case.get("start") is not None:
        classes.add("region_carrying_a_start")
    if any(isinstance(case[k], dict) and abs(case[k].get("pow10", 0)) >= 4300 for k in ("a", "b")):
        classes.add("bound_with_thousands_of_digits")
    if len(region) != N:
        raise Violation(f"len(region) {len(region)} != {N} samples", case)
    if region.duration != N / sr:
        raise Violation(f"duration {region.duration!r} != {N}/{sr}", case)
    if case.get("temp") and view != "samples":
        # the view of a region nobody else holds on to (e.g. region[a:b].seconds): it must keep working
        import gc

        tmp = auditok.AudioRegion(data, sr, sw, ch)
        target = tmp.seconds if view == "seconds" else tmp.millis
        del tmp
        if case["temp"] == "gc":
            gc.collect()
        classes.add("view_of_temporary_region")
    else:
        base_region = region
        if case.get("depth2"):
            # the region sliced is itself a slice (of a longer region): its views are its own
            pre, post = case["depth2"]
            longer = auditok.AudioRegion(content(pre, bps, 77) + data + content(post, bps, 78), sr, sw, ch)
            base_region = longer[pre: pre + N]
            if bytes(base_region) != data:
                raise Violation("a slice of a region does not hold the sliced samples", case)
            classes.add("slice_of_a_slice")
        alias = case.get("alias")
        if alias and view != "samples":
            # documented short names of the views
            target = getattr(base_region, alias)
            classes.add("view_alias")
        else:
            target = {"samples": base_region, "seconds": base_region.seconds, "millis": base_region.millis}[view]
    ok_types = {"samples": (int,), "seconds": (int, float), "millis": (int,)}[view]
    bad = step is not None or any(x is not None and (not isinstance(x, ok_types) or isinstance(x, bool) and False) for x in (a, b))
    if any(isinstance(case[k], dict) and "num" in case[k] for k in ("a", "b")) and bad:
        classes.add("number_of_another_type")
    if N == 0:
        classes.add("empty_region")
    if bad:
        classes.add("type_error")
        try:
            r = target[slice(a, b, step)]
        except TypeError:
            rec.note(case, False, classes, out="TypeError")
            return
        raise Violation(f"{view}[{a!r}:{b!r}:{step!r}] returned {r!r} instead of raising TypeError", case)
    got = target[a:b]
    if not isinstance(got, auditok.AudioRegion):
        raise Violation(f"slice returned {type(got).__name__}", case)
    if (got.sr, got.sw, got.ch) != (sr, sw, ch):
        raise Violation("slice changed the audio parameters", case)
    if view == "samples":
        wants = [b"".join(samples[a:b])]
        ia, ib = a, b
    else:
        scale = Fraction(sr) if view == "seconds" else Fraction(sr, 1000)
        if view == "millis":
            # the statement: millis view == seconds view at t/1000
            other = region.seconds[(a / 1000 if a is not None else None): (b / 1000 if b is not None else None)]
            if bytes(other) != bytes(got):
                raise Violation(f"millis[{a}:{b}] differs from seconds[{a}/1000:{b}/1000]", case)
            qa = Fraction(a / 1000) * sr if a is not None else None
            qb = Fraction(b / 1000) * sr if b is not None else None
        else:
            qa = Fraction(a) * scale if a is not None else None
            qb = Fraction(b) * scale if b is not None else None
        cas = candidates(qa, "trunc") if qa is not None else {None}
        cbs = candidates(qb, "round") if qb is not None else {None}
        wants = [b"".join(samples[i:j]) for i in cas for j in cbs]
        ia = next(iter(cas))
        ib = next(iter(cbs))
    if bytes(got) not in wants:
        raise Violation(
            f"{view}[{a!r}:{b!r}] on {N} samples ({bps} bytes each, {sr} Hz) returned {len(bytes(got)) / bps} samples, "
            f"expected samples[{ia}:{ib}] = {len(wants[0]) // bps} samples", case)
    if len(got) * bps != len(bytes(got)):
        raise Violation("slice is not a whole number of samples", case)
    neg = any(isinstance(x, (int, float)) and x < 0 for x in (ia, ib) if x is not None)
    oor = any(x is not None and abs(x) > N for x in (ia, ib))
    if neg:
        classes.add("negative_bound")
    if oor:
        classes.add("out_of_range")
    if any(isinstance(x, int) and abs(x) > 2**40 for x in (a, b)):
        classes.add("huge_int")
    if N >= 255:
        classes.add("region_length_around_power_of_two")
    rec.note(case, N >= 2 and bps > 1 and (neg or oor), classes, out=len(bytes(got)) // bps)


def explicit_cases():
    base = dict(sr=10, sw=2, ch=2, N=7, salt=1)
    return [
        dict(base, view="samples", a=-3, b=None),
        dict(base, view="samples", a=2, b=-9),
        dict(base, view="samples", a=-(10**30), b=10**30),
        dict(base, view="seconds", a=0, b=1 << 1024),
        dict(base, view="seconds", a=-(10**400), b=None),
        dict(base, view="millis", a=-(1 << 1024), b=1 << 1024),
        dict(base, view="seconds", a=0.25, b=0.55),
        dict(base, view="seconds", a=0.25, b=0.55, temp="gc"),
        dict(base, view="millis", a=100, b=-100, temp="drop"),
        dict(base, view="seconds", a=-0.3, b=1e15),
        dict(base, view="millis", a=150, b=-100),
        dict(base, view="samples", a=1, b=5, step=1),
        dict(base, view="samples", a=1.0, b=5),
        dict(base, view="millis", a=1, b=5.0),
        dict(base, view="seconds", a={"str": "1"}, b=None),
        dict(base, N=0, view="samples", a=-1, b=1),
        dict(base, N=65536, view="samples", a=-65536, b=65535),
        dict(base, N=257, view="seconds", a=25.5, b=25.65),
        dict(base, view="samples", a=0.0, b=3),
        dict(base, view="millis", a=0.0, b=300),
        dict(base, view="seconds", a={"str": ""}, b=0.3),
        dict(base, view="samples", a={"str": ""}, b=None),
        dict(base, view="samples", a={"pow10": 5000}, b=None), dict(base, view="samples", a={"pow10": -5000}, b={"pow10": 4400}),
        dict(base, view="seconds", a=0, b={"pow10": 5000}), dict(base, view="millis", a={"pow10": -300}, b=-1),
        dict(base, start=0.2, view="samples", a=-5, b=None), dict(base, start=0.2, view="seconds", a=-0.5, b=None),
        dict(base, start=0.05, view="millis", a=-300, b=-100), dict(base, start=1.5, view="samples", a=-7, b=-2, temp="gc"),
        dict(base, start=0.0, view="samples", a=-1, b=None), dict(base, start=0.3, view="samples", a=-100, b=3),
        dict(base, N=40, threads=[[0, 10], [5, 30], [10, 20], [1, 39]], n=4000),
        dict(base, N=12, sw=1, ch=1, threads=[[0, 6], [6, 12]], n=6000),
        dict(base, N=40, threads=[[0, 10], [5, 30], [0, 10], [5, 30]], n=300, preempt=True),
        dict(base, N=12, sw=1, ch=1, threads=[[0, 6], [6, 12], [3, 9]], n=300, preempt=True),
        dict(base, view="seconds", a={"num": ["Fraction", 0.5]}, b=None), dict(base, view="seconds", a=0.1, b={"num": ["np.float32", 0.5]}),
        dict(base, view="seconds", a={"num": ["Decimal", 0.2]}, b=0.6), dict(base, view="seconds", a={"num": ["np.float16", 0.25]}, b=None),
        dict(base, view="seconds", a={"num": ["np.int64", 0]}, b=None), dict(base, view="samples", a={"num": ["np.int64", 2]}, b=5),
        dict(base, view="millis", a={"num": ["np.int32", 100]}, b=None), dict(base, view="seconds", a={"num": ["complex", 0.1]}, b=None),
        dict(base, view="seconds", a=0.1, b=0.5, alias="sec", depth2=[3, 2]), dict(base, view="seconds", a=0.2, b=None, alias="s", depth2=[5, 0]),
        dict(base, view="millis", a=100, b=400, alias="ms", depth2=[4, 4]), dict(base, view="millis", a=-300, b=None, alias="ms", depth2=[1, 9]),
        dict(base, view="samples", a=1, b=4, depth2=[2, 2]), dict(base, view="seconds", a=0.0, b=0.3, alias="sec"),
    ]


def _exh(sw, ch, maxlen):
    rng = [None] + list(range(-15, 16))
    for N in range(0, maxlen + 1):
        for a in rng:
            for b in rng:
                yield dict(sr=(8, 10, 16000)[(N + sw) % 3], sw=sw, ch=ch, N=N, salt=N * 7 + sw, view="samples", a=a, b=b)


@st.composite
def strategy(draw):
    sr = draw(st.sampled_from([8, 10, 100, 1000, 16000, 44100]))
    N = draw(st.integers(0, 40) if sr > 10 else st.one_of(st.integers(0, 40), st.integers(40, 130)))
    if draw(rarely(30)):
        N = draw(st.sampled_from([255, 256, 257, 65535, 65536, 65537]))
    base = dict(sr=sr, sw=draw(st.sampled_from([1, 2, 4])), ch=draw(st.integers(1, 3)), N=N,
                salt=draw(st.integers(0, 10**6)))
    view = draw(st.sampled_from(["samples", "seconds", "millis"]))
    ints = st.one_of(st.none(), st.integers(-N - 3, N + 3), st.integers(),
                     st.sampled_from([1 << 1024, -(1 << 1024), 10**400, -(10**400), (1 << 1023) + 1]),
                     st.sampled_from([N - 1, N, N + 1, -N, -N - 1, -N + 1, N // 2, 255, 256, 65535, 65536, -256, -65536]))
    if view == "samples":
        bound = ints
    elif view == "seconds":
        near = st.builds(lambda k, e: (k + e) / sr, st.integers(-N - 3, N + 3),
                         st.sampled_from([0.0, 0.5, -0.5, 0.49, 0.51, 1e-9, -1e-9, 0.25]))
        bound = st.one_of(st.none(), near, st.floats(-1e15, 1e15, allow_nan=False),
                          st.integers(-5, 5), st.floats(-5, 5, allow_nan=False),
                          st.sampled_from([1 << 1024, -(1 << 1024), 10**400]))  # ints too big for a float
    else:
        span = (N * 1000) // sr + 3
        bound = st.one_of(st.none(), st.integers(-span, span), st.integers(-10**9, 10**9))
    a, b = draw(bound), draw(bound)
    step = None
    r = draw(st.integers(0, 14))
    if r == 0:
        step = draw(st.sampled_from([1, 2, -1]))
    elif r == 1:
        falsy = st.sampled_from([0.0, -0.0, {"str": ""}])
        wrong = {"samples": st.one_of(st.floats(-5, 5, allow_nan=False), st.just({"str": "2"}), falsy),
                 "millis": st.one_of(st.floats(-5, 5, allow_nan=False), st.just({"str": "2"}), falsy),
                 "seconds": st.sampled_from([{"str": "0.5"}, {"str": ""}])}[view]
        if draw(st.booleans()):
            a = draw(wrong)
        else:
            b = draw(wrong)
    pows = [4300, 4301, 5000, -4301, -5000] if view != "millis" else [300, -300, 290]
    if draw(rarely(12)) and not isinstance(a, dict):
        a = {"pow10": draw(st.sampled_from(pows))}
    elif draw(rarely(12)) and not isinstance(b, dict):
        b = {"pow10": draw(st.sampled_from(pows))}
    start = draw(st.one_of(st.none(), st.none(), st.sampled_from([0.0, 0.05, 0.2, 1.5, 1234.5]), st.floats(0, 3, allow_nan=False)))
    extra = {}
    if draw(st.booleans()):
        extra["alias"] = {"seconds": draw(st.sampled_from(["sec", "s"])), "millis": "ms", "samples": None}[view]
    if draw(rarely(3)) and N <= 200:
        extra["depth2"] = [draw(st.integers(0, 9)), draw(st.integers(0, 9))]
    if draw(rarely(10)):
        num = {"num": [draw(st.sampled_from(["Fraction", "Decimal", "np.float32", "np.float16", "np.int64", "np.int32", "complex"])),
                       draw(st.sampled_from([0, 1, 0.5, 0.25, 2]))]}
        if draw(st.booleans()):
            a = num
        else:
            b = num
        return dict(base, view=view, a=a, b=b, step=None, temp=None, start=start, **extra)
    return dict(base, view=view, a=a, b=b, step=step, temp=draw(st.sampled_from([None, None, "drop", "gc"])), start=start, **extra)


MS_RATES = (8, 10, 100, 160, 1000, 8000, 11025, 16000, 44100, 48000)


def _exh_ms(sr, N):
    """every integer millisecond bound that falls inside (or just around) a region of N samples"""
    span = (N * 1000) // sr + 3
    lo = max(-span, -1500)
    hi = min(span, 1500)
    for t in range(lo, hi + 1):
        yield dict(sr=sr, sw=2, ch=2, N=N, salt=sr, view="millis", a=t, b=None)
        yield dict(sr=sr, sw=2, ch=2, N=N, salt=sr, view="millis", a=None, b=t)


def jobs(tier, seed):
    bd = BOUNDS[tier]
    out = [{"name": f"exh-sw{sw}-ch{ch}", "kind": "exh", "sw": sw, "ch": ch, "maxlen": bd["maxlen"]}
           for sw in (1, 2, 4) for ch in (1, 2, 3)]
    out += [{"name": f"exh-ms-{sr}", "kind": "exh_ms", "sr": sr, "N": min(max(sr * 3 // 2, 12), 3000)} for sr in MS_RATES]
    out += [{"name": f"hyp-{i}", "kind": "hyp", "seed": seed * 1000 + i, "n": bd["n"]} for i in range(16)]
    return out


def run_job(job, rec):
    mod = sys.modules[__name__]
    if job["kind"] == "exh_ms":
        run_cases(mod, _exh_ms(job["sr"], job["N"]), rec)
    elif job["kind"] == "exh":
        run_cases(mod, _exh(job["sw"], job["ch"], job["maxlen"]), rec)
    else:
        hyp_run(mod, strategy(), rec, job["seed"], job["n"])


def extra_coverage(tier):
    return {"exhaustive_part": f"regions of 0..{BOUNDS[tier]['maxlen']} samples x width 1/2/4 x 1-3 channels x all sample slices with bounds in {{None}} U [-15,15]; plus, for each rate in {list(MS_RATES)}, a region of min(1.5 s, 3000 samples) and every integer millisecond bound inside or just around it as start or as stop (millis view vs seconds view vs exact oracle)"}
