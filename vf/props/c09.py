"""C09 - same audio, same result, whatever the container or the spelling."""

import io
import os
import sys
import threading
import time
import wave
from pathlib import Path

from hypothesis import strategies as st

from .. import audio
from ..common import HarnessError, Violation, hyp_run, import_auditok, tmpdir
from ..oracles import exact_round
from .c05 import compare_regions, expected_regions

import_auditok()
import auditok  # noqa: E402
from auditok.io import BufferAudioSource  # noqa: E402
from auditok.util import AudioEnergyValidator  # noqa: E402

ID = "C09"
LEVEL = "exploration"
RULE = (
    "Cases = synthesized recording (as C05) x split parameters x container in {bytes, AudioRegion via function, "
    "AudioRegion.split, wav eager, wav lazy, raw eager (str path), raw lazy (Path), raw data behind a misleading "
    ".wav name with audio_format/fmt='raw', wav data behind a .raw name with fmt='wav', BufferAudioSource, "
    "AudioReader(block_dur=window), standard input (a BytesIO behind sys.stdin, or a real OS pipe fed by a thread in "
    "pieces that do not line up with samples or windows)} x spelling of each of sr/sw/ch/aw/eth/uc/mr/fmt/val "
    "(long, short, or both with a conflicting short value) x optional max_read (whole samples or mid-sample). "
    "Files are written with stdlib wave/open. Oracle: (start sample, bytes) of the regions equal those of "
    "split(bytes, long names) of the same audio (itself compared with the reference pipeline of C05); with "
    "max_read=t the audio is first cut to round(t*rate) samples. Non-trivial = at least one region."
)
CONTAINERS = ("bytes", "region_fn", "region_method", "wav_eager", "wav_lazy", "raw_eager_str", "raw_lazy_path",
              "raw_misleading_ext", "wav_misleading_ext", "buffer_source", "reader", "stdin", "stdin_pipe")
MUST_HIT = ["container_" + c for c in CONTAINERS] + ["conflicting_alias", "max_read_mid_window", "short_alias",
                                                       "threshold_zero", "region_with_start_or_conflicting_format", "conflicting_alias_short_first",
                                                       "second_split_on_same_stdin"]
ASSUMPTIONS = ["split(bytes, long names) is the baseline, judged on its own by C05/C06"]
BOUNDS = {"quick": dict(n=500, maxwin=24), "thorough": dict(n=5000, maxwin=80)}
PAIRS = {"sr": "sampling_rate", "sw": "sample_width", "ch": "channels", "aw": "analysis_window",
         "eth": "energy_threshold", "uc": "use_channel", "mr": "max_read", "fmt": "audio_format", "val": "validator"}
_counter = [0]


class _FakeStdin:
    def __init__(self, data):
        self.buffer = io.BytesIO(data)


class _PipeStdin:
    """sys.stdin stand-in over a real OS pipe fed by a thread in pieces that do not line up with
    samples or windows.  The feeder writes the next piece only once the pipe has been drained, so a
    reader that settles for "whatever is there" (read1) deterministically sees short chunks, while a
    blocking read() of n bytes gets its n bytes whatever the timing."""

    def __init__(self, data, sizes, text=False, process=False):
        """process=True: the feeder is a forked child process instead of a thread (the command line
        waits until it is the only *thread* left, so the harness must not keep threads of its own)."""
        import array
        import fcntl
        import termios

        rfd, wfd = os.pipe()
        raw = io.BufferedReader(io.FileIO(rfd, "rb"))
        if text:
            self._wrapper = io.TextIOWrapper(raw, encoding="latin-1")
            self.buffer = self._wrapper.buffer
        else:
            self.buffer = raw
        self.stop = False

        def unread():
            buf = array.array("i", [0])
            try:
                fcntl.ioctl(rfd, termios.FIONREAD, buf)
            except OSError:
                return 0
            return buf[0]

        def feed():
            pos = i = 0
            try:
                while pos < len(data) and not self.stop:
                    t0 = time.time()
                    while unread() > 0 and not self.stop and time.time() - t0 < 20:
                        time.sleep(0.0002)
                    n = sizes[i % len(sizes)]
                    piece = data[pos: pos + n]
                    while piece:
                        piece = piece[os.write(wfd, piece):]
                    pos += n
                    i += 1
                    time.sleep(0.0003)
            except OSError:
                pass
            finally:
                os.close(wfd)

        self.thread = None
        self.pid = None
        if process:
            pid = os.fork()
            if pid == 0:  # child: feed, then leave without running any cleanup of the parent's state
                try:
                    feed()
                finally:
                    os._exit(0)
            self.pid = pid
            os.close(wfd)
        else:
            self.thread = threading.Thread(target=feed, daemon=True)
            self.thread.start()

    def finish(self):
        self.stop = True
        try:
            self.buffer.close()
        except OSError:
            pass
        if self.thread is not None:
            self.thread.join(10)
        if self.pid is not None:
            import signal

            try:
                os.kill(self.pid, signal.SIGKILL)
            except OSError:
                pass
            try:
                os.waitpid(self.pid, 0)
            except OSError:
                pass


def never(_frame):
    return False


def write_wav(path, data, sr, sw, ch):
    with wave.open(path, "wb") as fp:
        fp.setframerate(sr)
        fp.setsampwidth(sw)
        fp.setnchannels(ch)
        fp.writeframes(data)


def spell(kw, short, long_value, how, wrong):
    """put a parameter in kw with the requested spelling"""
    long = PAIRS[short]
    if how == "long":
        kw[long] = long_value
    elif how == "short":
        kw[short] = long_value
    elif how == "both_rev":  # the alias comes first in the call: the long name must still win
        kw.pop(long, None)
        kw[short] = wrong
        kw[long] = long_value
    else:
        kw[long] = long_value
        kw[short] = wrong


def check_case(case, rec_):
    rec, win, cont = case["audio"], case["win"], case["container"]
    sp = case.get("spell", {})
    sr, sw, ch, B = rec["sr"], rec["sw"], rec["ch"], rec["B"]
    bps = sw * ch
    data, thr = audio.synth(rec)
    aw = audio.window_arg(B, sr)
    if cont == "reader" and aw != B / sr:
        cont = "buffer_source"
    mind, maxd, sild = audio.split_durations(win, aw)
    uc = rec.get("uc")
    classes = {"container_" + cont}
    if any(v in ("both", "both_rev") for v in sp.values()):
        classes.add("conflicting_alias")
    if any(v == "both_rev" for v in sp.values()):
        classes.add("conflicting_alias_short_first")
    if any(v == "short" for v in sp.values()):
        classes.add("short_alias")

    # --- max_read
    mr = None
    vis = data
    if case.get("mr") is not None and cont != "region_method":
        k, frac = case["mr"]
        mr = (k + frac) / sr
        nvis, razor = exact_round(mr, sr)
        if razor:
            mr = k / sr
            nvis, razor = exact_round(mr, sr)
            if razor:
                mr = None
        if mr is not None:
            vis = data[: max(nvis, 0) * bps]
            if nvis % B and nvis * bps < len(data):
                classes.add("max_read_mid_window")

    common = dict(min_dur=mind, max_dur=maxd, max_silence=sild, drop_trailing_silence=win[3],
                  strict_min_dur=win[4])
    # baseline: the visible audio as bytes, long names only
    base_kw = dict(common, sampling_rate=sr, sample_width=sw, channels=ch, analysis_window=aw,
                   energy_threshold=thr, use_channel=uc)
    base = list(auditok.split(vis, **base_kw))
    _dec, exp = expected_regions(vis, rec, win, thr)
    compare_regions(base, exp, vis, rec, case)

    # --- the container under test
    kw = dict(common)
    use_val = sp.get("val") is not None
    if use_val:
        good = AudioEnergyValidator(thr, sw, ch, use_channel=uc)
        spell(kw, "val", good, sp["val"], never)
    else:
        spell(kw, "eth", thr, sp.get("eth", "long"), thr + 60.0)
        other_uc = (0 if uc in (None, "any") or isinstance(uc, str) else (uc + 1) % ch) if ch > 1 else "mix"
        if ch > 1 and uc in (None, "any") and sp.get("uc") == "both":
            # 'any' vs a fixed channel differ only when that channel is quiet: fine, long must win
            other_uc = 0
        spell(kw, "uc", uc, sp.get("uc", "long"), other_uc)
    if cont == "reader":
        if sp.get("aw") in ("both", "both_rev"):
            kw["analysis_window"] = aw * 3  # a reader's own block duration governs: must be ignored
        elif sp.get("aw") == "short":
            kw["aw"] = aw * 3
    else:
        spell(kw, "aw", aw, sp.get("aw", "long"), aw * 3)
        if mr is not None:
            spell(kw, "mr", mr, sp.get("mr", "long"), mr / 2 + 1 / sr)
    needs_params = cont in ("bytes", "raw_eager_str", "raw_lazy_path", "raw_misleading_ext", "stdin", "stdin_pipe")
    if rec.get("thr0"):
        classes.add("threshold_zero")
    pipe = None
    rest_got = None
    if needs_params:
        spell(kw, "sr", sr, sp.get("sr", "long"), sr + 1)
        spell(kw, "sw", sw, sp.get("sw", "long"), {1: 2, 2: 4, 4: 1}[sw])
        spell(kw, "ch", ch, sp.get("ch", "long"), ch + 1)
    _counter[0] += 1
    stem = os.path.join(tmpdir(), f"c09_{_counter[0]}")
    paths = []
    old_stdin = sys.stdin
    try:
        if cont == "bytes":
            inp = data
        elif cont in ("region_fn", "region_method"):
            ro = case.get("region_opts") or {}
            inp = auditok.AudioRegion(data, sr, sw, ch, ro["start"]) if ro.get("start") is not None else auditok.AudioRegion(data, sr, sw, ch)
            # the region's own format governs whatever the call says
            for name, wrong in (("sampling_rate", sr + 3), ("sample_width", {1: 2, 2: 4, 4: 1}[sw]), ("channels", ch + 1),
                                ("sr", sr * 2), ("sw", {1: 4, 2: 1, 4: 2}[sw]), ("ch", ch + 2)):
                if name in (ro.get("conflict") or []):
                    kw[name] = wrong
            if ro.get("start") or ro.get("conflict"):
                classes.add("region_with_start_or_conflicting_format")
        elif cont in ("wav_eager", "wav_lazy"):
            inp = stem + ".wav"
            write_wav(inp, data, sr, sw, ch)
            if case.get("wav_trailer"):
                from .c10 import add_wav_trailer

                add_wav_trailer(inp)  # a LIST/INFO chunk after the audio, as recorders and editors write it
                classes.add("wav_with_chunk_after_the_audio")
            paths.append(inp)
            if cont == "wav_lazy":
                kw["large_file"] = True
        elif cont in ("raw_eager_str", "raw_lazy_path"):
            inp = stem + ".raw"
            with open(inp, "wb") as fp:
                fp.write(data)
            paths.append(inp)
            if cont == "raw_lazy_path":
                inp = Path(inp)
                kw["large_file"] = True
        elif cont == "raw_misleading_ext":
            inp = stem + ".wav"
            with open(inp, "wb") as fp:
                fp.write(data)
            paths.append(inp)
            spell(kw, "fmt", case.get("raw_spelling", "raw"), sp.get("fmt", "long"), "wav")
        elif cont == "wav_misleading_ext":
            inp = stem + ".raw"
            write_wav(inp, data, sr, sw, ch)
            paths.append(inp)
            spell(kw, "fmt", case.get("wav_spelling", "wav"), sp.get("fmt", "long"), "raw")
            kw["large_file"] = bool(case.get("lazy"))
        elif cont == "buffer_source":
            inp = BufferAudioSource(data, sr, sw, ch)
        elif cont == "reader":
            rkw = {}
            if mr is not None:
                rkw["max_read"] = mr
            inp = auditok.AudioReader(data, block_dur=aw, sampling_rate=sr, sample_width=sw, channels=ch, **rkw)
        elif cont == "stdin":
            sys.stdin = _FakeStdin(data)
            inp = "-"
        elif cont == "stdin_pipe":
            step = max(len(data) // 9, 1)
            pipe = _PipeStdin(data, [step + 1, max(step - 2, 1), step + 3, 1])
            sys.stdin = pipe
            inp = "-"
        else:
            raise HarnessError(cont)
        rest_got = None
        if cont == "region_method":
            got = list(inp.split(**kw))
        else:
            got = list(auditok.split(inp, **kw))
        if cont in ("stdin", "stdin_pipe") and mr is not None and case.get("second_stdin_split") and len(vis) < len(data):
            # the same process goes on reading the same standard input: the remainder, as a new stream
            import gc

            gc.collect()
            kw2 = {k: v for k, v in kw.items() if k not in ("max_read", "mr")}
            rest_got = list(auditok.split("-", **kw2))
    finally:
        sys.stdin = old_stdin
        if pipe is not None:
            pipe.finish()
        for p in paths:
            try:
                os.remove(p)
            except OSError:
                pass
    a = [(round(r.start * sr), bytes(r)) for r in base]
    b = [(round(r.start * sr), bytes(r)) for r in got]
    if rest_got is not None:
        rest_exp = [(round(r.start * sr), bytes(r)) for r in auditok.split(data[len(vis):], **base_kw)]
        rest_have = [(round(r.start * sr), bytes(r)) for r in rest_got]
        classes.add("second_split_on_same_stdin")
        if rest_have != rest_exp:
            raise Violation(
                f"container {cont}: a second split('-') on the same stdin (after max_read={mr!r}) gives "
                f"{[(s, len(d) // bps) for s, d in rest_have]}, the rest of the audio as bytes gives "
                f"{[(s, len(d) // bps) for s, d in rest_exp]}", case)
    if a != b:
        raise Violation(
            f"container {cont} (spelling {sp}, max_read {mr!r}): regions "
            f"{[(s, len(d) // bps) for s, d in b]} != bytes baseline {[(s, len(d) // bps) for s, d in a]}", case)
    for r in got:
        if (r.sr, r.sw, r.ch) != (sr, sw, ch):
            raise Violation(f"container {cont}: region parameters {(r.sr, r.sw, r.ch)}", case)
    rec_.note(case, bool(base), classes, out=[[s, len(d) // bps] for s, d in a])


def explicit_cases():
    base = {"sr": 100, "sw": 2, "ch": 2, "B": 2, "pat": "01110111000110", "tail": [1, 1], "al": 50, "aq": 1, "salt": 3, "uc": None}
    out = []
    for i, c in enumerate(CONTAINERS):
        out.append({"audio": dict(base, sw=(1, 2, 4)[i % 3]), "win": [2, 4, 1, bool(i % 2), False], "container": c,
                    "spell": {"sr": "both", "aw": "short", "eth": "both", "mr": "both", "fmt": "both"} if i % 2 else {"sw": "short", "ch": "both", "uc": "both", "val": "both"},
                    "mr": [7, 0.25] if i % 3 == 0 else None})
    bigw = {"sr": 48000, "sw": 2, "ch": 1, "B": 66000, "pat": "0110", "tail": [100, 0], "al": 3000, "aq": 0, "salt": 8, "uc": None}
    out.append({"audio": bigw, "win": [1, 3, 0, False, False], "container": "wav_lazy", "spell": {}, "mr": None})
    out.append({"audio": base, "win": [2, 4, 1, False, False], "container": "wav_lazy", "spell": {}, "mr": None, "wav_trailer": True})
    out.append({"audio": base, "win": [2, 4, 1, False, False], "container": "wav_eager", "spell": {}, "mr": [30, 0.5], "wav_trailer": True})
    out.append({"audio": dict(base, sw=1, ch=1, B=3, tail=[2, 1]), "win": [1, 4, 1, False, False], "container": "wav_eager", "spell": {}, "mr": None, "wav_trailer": True})
    out.append({"audio": bigw, "win": [1, 3, 0, False, False], "container": "stdin", "spell": {}, "mr": None})
    out.append({"audio": base, "win": [2, 4, 1, False, False], "container": "stdin", "spell": {"sr": "both_rev", "eth": "both_rev", "mr": "both_rev"},
                "mr": [9, 0], "second_stdin_split": True})
    out.append({"audio": base, "win": [2, 4, 1, False, False], "container": "stdin_pipe", "spell": {"ch": "both_rev"},
                "mr": [12, 0.5], "second_stdin_split": True})
    return out


@st.composite
def strategy(draw, maxwin):
    c = draw(audio.audio_case(maxwin=maxwin, maxB=8, shapes="light"))
    c["container"] = draw(st.sampled_from(CONTAINERS))
    c["wav_trailer"] = draw(st.booleans())
    names = draw(st.lists(st.sampled_from(sorted(PAIRS)), unique=True, max_size=5))
    c["spell"] = {n: draw(st.sampled_from(["short", "both", "long", "both_rev"])) for n in names}
    if "val" in c["spell"] and draw(st.booleans()):
        del c["spell"]["val"]
    N = len(c["audio"]["pat"]) * c["audio"]["B"] + c["audio"]["tail"][0]
    if draw(st.integers(0, 2)) == 0:
        c["mr"] = [draw(st.integers(0, N + 3)), draw(st.sampled_from([0, 0.25, 0.5, 0.75]))]
    else:
        c["mr"] = None
    c["lazy"] = draw(st.booleans())
    c["second_stdin_split"] = draw(st.booleans())
    c["wav_spelling"] = draw(st.sampled_from(["wav", "wave", "WAV", "WAVE", "Wave", "Wav"]))
    c["raw_spelling"] = draw(st.sampled_from(["raw", "RAW", "Raw"]))
    if c["container"].startswith("region") and draw(st.booleans()):
        c["region_opts"] = {
            "start": draw(st.one_of(st.none(), st.sampled_from([0.0, 2.5, 0.1]))),
            "conflict": draw(st.lists(st.sampled_from(["sampling_rate", "sample_width", "channels", "sr", "sw", "ch"]),
                                      unique=True, max_size=3)),
        }
    return c


def jobs(tier, seed):
    b = BOUNDS[tier]
    return [{"name": f"hyp-{i}", "seed": seed * 1000 + i, "n": b["n"], "maxwin": b["maxwin"]} for i in range(16)]


def run_job(job, rec):
    hyp_run(sys.modules[__name__], strategy(job["maxwin"]), rec, job["seed"], job["n"])
