"""C05 - split() regions are the input's own bytes at the reported times and
equal the reference pipeline (energy oracle -> reference segmentation)."""

import math
import sys

from hypothesis import strategies as st

from .. import audio
from ..common import Violation, hyp_run, import_auditok
from ..oracles import ref_tokens

import_auditok()
import auditok  # noqa: E402

ID = "C05"
LEVEL = "exploration"
RULE = (
    "Cases = synthesized PCM recording (rate from 8..44100, width 1/2/4, 1-4 channels, window of 1..12 "
    "samples, loud/quiet windows built from a validity pattern biased to the split parameters, optional "
    "partial last window, channel-selection mode) x (min,max,silence) in windows passed as mid-window "
    "durations x drop/strict x entry point (split(bytes), split(AudioRegion), AudioRegion.split - the input region optionally carrying its own start and the call optionally carrying sampling_rate/sample_width/channels that disagree with the region -, or a raw/wav file read lazily or eagerly). Oracle: "
    "expected regions = reference segmentation of the per-window decisions of the exact energy oracle; "
    "each region's bytes == the input bytes of that window range, sr/sw/ch == input's, start == s*B/sr "
    "(1e-6 samples), |(end-start)-duration| <= 2ulp, duration == len/sr, regions strictly ordered and "
    "disjoint. Non-trivial = at least one region and the format is not mono/16-bit/16 kHz."
)
MUST_HIT = ["region_with_partial_last_window", "ch>=3", "sw1", "sw4", "window_of_1_sample",
            "entry_bytes", "entry_region_fn", "entry_region_method", "entry_raw_lazy_file", "entry_wav_lazy_file",
            "entry_wav_file", "entry_stdin_pipe", "empty_input", "start_beyond_one_hour", "hundred_regions", "input_region_with_start",
            "input_region_with_conflicting_format_kwargs", "window_above_65536_samples_uneven_energy"]
ASSUMPTIONS = [
    "exact energy oracle (vf/oracles.energy_db); synthesized windows lie >= 3 dB from the threshold (self-checked)",
    "reference segmentation (judged on its own by C04)",
]
BOUNDS = {"quick": dict(n=500, maxwin=30), "thorough": dict(n=6000, maxwin=120)}
ENTRIES = ("bytes", "region_fn", "region_method", "raw_lazy_file", "wav_lazy_file", "wav_file", "stdin_pipe")


_ctr = [0]


def run_split(entry, data, rec, kw):
    sr, sw, ch = rec["sr"], rec["sw"], rec["ch"]
    if entry == "bytes":
        return auditok.split(data, sampling_rate=sr, sample_width=sw, channels=ch, **kw)
    if entry == "stdin_pipe":
        import sys

        from .c09 import _PipeStdin

        step = max(len(data) // 8, 1)
        pipe = _PipeStdin(data, [step + 1, max(step - 3, 1), 2, step + 5])
        old = sys.stdin
        try:
            sys.stdin = pipe
            return list(auditok.split("-", sampling_rate=sr, sample_width=sw, channels=ch, **kw))
        finally:
            sys.stdin = old
            pipe.finish()
    if entry in ("raw_lazy_file", "wav_lazy_file", "wav_file"):
        import os
        import wave

        from ..common import tmpdir

        _ctr[0] += 1
        path = os.path.join(tmpdir(), f"c05_{_ctr[0]}." + ("raw" if entry.startswith("raw") else "wav"))
        try:
            if entry.startswith("raw"):
                with open(path, "wb") as fp:
                    fp.write(data)
                return list(auditok.split(path, sampling_rate=sr, sample_width=sw, channels=ch, large_file=True, **kw))
            with wave.open(path, "wb") as fp:
                fp.setframerate(sr)
                fp.setsampwidth(sw)
                fp.setnchannels(ch)
                fp.writeframes(data)
            if rec.get("wav_trailer"):
                from .c10 import add_wav_trailer

                add_wav_trailer(path)  # the audio of a wav file is its data chunk, whatever chunks follow
            return list(auditok.split(path, large_file=entry == "wav_lazy_file", **kw))
        finally:
            try:
                os.remove(path)
            except OSError:
                pass
    opts = rec.get("region_opts") or {}
    # the input region may itself carry a start (e.g. it came out of an earlier split): times are
    # still measured from the beginning of *this* input; and its own format governs, whatever
    # sampling_rate / sample_width / channels the caller passes along
    region = auditok.AudioRegion(data, sr, sw, ch, opts["start"]) if opts.get("start") is not None else auditok.AudioRegion(data, sr, sw, ch)
    extra = {}
    for name, wrong in (("sampling_rate", sr + 3), ("sample_width", {1: 2, 2: 4, 4: 1}[sw]), ("channels", ch + 1),
                        ("sr", sr * 2), ("sw", {1: 4, 2: 1, 4: 2}[sw]), ("ch", ch + 2)):
        if name in (opts.get("conflict") or []):
            extra[name] = wrong
    if entry == "region_fn":
        return auditok.split(region, **kw, **extra)
    return region.split(**kw, **extra)


def expected_regions(data, rec, win, thr):
    dec = audio.decisions(data, rec, thr)
    kmin, kmax, ksil, drop, strict = win
    return dec, ref_tokens(dec, kmin, kmax, ksil, strict, drop)


def compare_regions(regions, exp, data, rec, case):
    sr, sw, ch, B = rec["sr"], rec["sw"], rec["ch"], rec["B"]
    bps = sw * ch
    N = len(data) // bps
    got = [(round(r.start * sr), len(r)) for r in regions]
    want = [(s * B, min((e + 1) * B, N) - s * B) for s, e in exp]
    if got != want:
        raise Violation(f"regions (start sample, samples) {got} != expected {want}", case)
    prev_end = None
    for r, (s, e) in zip(regions, exp):
        lo, hi = s * B, min((e + 1) * B, N)
        if bytes(r) != data[lo * bps: hi * bps] or r.data != data[lo * bps: hi * bps]:
            raise Violation(f"region of windows ({s},{e}) does not carry input bytes [{lo},{hi})", case)
        if (r.sampling_rate, r.sample_width, r.channels) != (sr, sw, ch) or (r.sr, r.sw, r.ch) != (sr, sw, ch):
            raise Violation(f"region parameters {(r.sr, r.sw, r.ch)} != input {(sr, sw, ch)}", case)
        if abs(r.start * sr - lo) > 1e-6:
            raise Violation(f"start {r.start!r} is not {s} windows of {B} samples at {sr} Hz", case)
        if r.duration != (hi - lo) / sr:
            raise Violation(f"duration {r.duration!r} != {(hi - lo)}/{sr}", case)
        if abs((r.end - r.start) - r.duration) > 2 * math.ulp(max(r.end, 1e-300)):
            raise Violation(f"end-start {r.end - r.start!r} != duration {r.duration!r}", case)
        if r.meta is None or r.meta.start != r.start or r.meta.end != r.end:
            raise Violation("meta.start/meta.end differ from start/end", case)
        if prev_end is not None and r.start * sr < prev_end - 1e-6:
            raise Violation(f"region starting at {r.start} overlaps the previous one", case)
        prev_end = r.start * sr + len(r)


def check_bigwin(case, rec_):
    """Analysis windows of more than 65536 samples whose energy is not evenly spread: 65536 silent
    samples followed by a loud tail must be judged on the whole window."""
    W, sr, thr = case["bigwin"]["W"], case["bigwin"]["sr"], case["bigwin"]["thr"]
    loud, tail = case["bigwin"]["loud"], case["bigwin"]["tail"]
    b = lambda v, n: bytes([v & 255]) * n  # noqa: E731
    data = b(0, W) + b(0, W - tail) + b(loud, tail) + b(loud, W) + b(0, W // 3)
    rec = {"sr": sr, "sw": 1, "ch": 1, "B": W, "uc": None}
    win = [1, 3, 0, False, False]
    dec, exp = expected_regions(data, rec, win, thr)
    if dec != [False, False, True, False]:
        from ..common import HarnessError

        raise HarnessError(f"big-window member mis-built: decisions {dec}")
    aw = W / sr
    for entry in case["bigwin"]["entries"]:
        kw = dict(min_dur=0.5 * aw, max_dur=3.5 * aw, max_silence=0, analysis_window=aw, energy_threshold=thr)
        regions = list(run_split(entry, data, rec, kw))
        compare_regions(regions, exp, data, rec, case)
    rec_.note(case, True, {"window_above_65536_samples_uneven_energy"}, out=[[s, e] for s, e in exp])


def check_case(case, rec_):
    if "bigwin" in case:
        return check_bigwin(case, rec_)
    rec, win = case["audio"], case["win"]
    entry = case.get("entry", "bytes")
    data, thr = audio.synth(rec)
    aw = audio.window_arg(rec["B"], rec["sr"])
    mind, maxd, sild = audio.split_durations(win, aw)
    kw = dict(min_dur=mind, max_dur=maxd, max_silence=sild, drop_trailing_silence=win[3],
              strict_min_dur=win[4], analysis_window=aw, energy_threshold=thr)
    if rec["ch"] > 1 or rec.get("uc") is not None:
        kw["use_channel"] = rec.get("uc")
    dec, exp = expected_regions(data, rec, win, thr)
    regions = list(run_split(entry, data, rec, kw))
    for r in regions:
        if not isinstance(r, auditok.AudioRegion):
            raise Violation(f"split yielded {type(r).__name__}", case)
    compare_regions(regions, exp, data, rec, case)
    bps = rec["sw"] * rec["ch"]
    N = len(data) // bps
    classes = {f"entry_{entry}", f"sw{rec['sw']}"}
    if rec["ch"] >= 3:
        classes.add("ch>=3")
    if rec["B"] == 1:
        classes.add("window_of_1_sample")
    if N == 0:
        classes.add("empty_input")
    if rec.get("shape"):
        classes.add("shape_" + rec["shape"])
    ro = rec.get("region_opts") or {}
    if entry.startswith("region") and ro.get("start"):
        classes.add("input_region_with_start")
    if entry.startswith("region") and ro.get("conflict"):
        classes.add("input_region_with_conflicting_format_kwargs")
    if regions and regions[-1].start >= 3599:
        classes.add("start_beyond_one_hour")
    if len(regions) >= 100:
        classes.add("hundred_regions")
    if N % rec["B"] and exp and (exp[-1][1] + 1) * rec["B"] > N:
        classes.add("region_with_partial_last_window")
    nt = bool(exp) and not (rec["ch"] == 1 and rec["sw"] == 2 and rec["sr"] == 16000)
    rec_.note(case, nt, classes, out=[[s, e] for s, e in exp])


def explicit_cases():
    base = {"sr": 10, "sw": 1, "ch": 3, "B": 1, "pat": "0110111", "tail": [0, 0], "al": 50, "aq": 1, "salt": 5, "uc": None}
    return [
        {"audio": base, "win": [1, 3, 1, False, False], "entry": "bytes"},
        {"audio": dict(base, sw=4, ch=4, B=3, pat="011", tail=[2, 1], al=100000, uc="mix"), "win": [1, 5, 0, True, False], "entry": "region_fn"},
        {"audio": dict(base, region_opts={"start": 2.5, "conflict": ["sampling_rate", "ch"]}), "win": [1, 3, 1, False, False], "entry": "region_fn"},
        {"audio": dict(base, region_opts={"start": 0.1, "conflict": ["sample_width", "channels", "sr"]}), "win": [1, 3, 1, False, False], "entry": "region_method"},
        {"audio": dict(base, sw=2, ch=1, B=4, pat="", tail=[0, 0]), "win": [1, 2, 0, False, True], "entry": "region_method"},
        {"audio": dict(base, sw=2, ch=2, B=5, pat="1", tail=[3, 1], uc=-1), "win": [1, 4, 1, False, False], "entry": "bytes"},
        {"audio": dict(base, ch=1, pat="0" * 36000 + "0110", shape="late_activity"), "win": [1, 3, 0, False, False], "entry": "bytes"},
        {"audio": dict(base, ch=2, sw=2, pat="10" * 120, shape="many_events"), "win": [1, 1, 0, False, False], "entry": "region_fn"},
        {"audio": dict(base, wav_trailer=True), "win": [1, 3, 1, False, False], "entry": "wav_file"},
        {"audio": dict(base, wav_trailer=True, sw=2, ch=2, B=3, tail=[1, 1]), "win": [1, 3, 0, False, False], "entry": "wav_lazy_file"},
        {"audio": dict(base, wav_trailer=True, sw=1, ch=1, B=2, tail=[1, 1], pat="1101101"), "win": [1, 3, 0, False, False], "entry": "wav_file"},
        {"bigwin": {"W": 70000, "sr": 16000, "thr": 33.0, "loud": 100, "tail": 4464, "entries": ["bytes", "raw_lazy_file", "wav_file"]}},
        {"bigwin": {"W": 131072 + 8192, "sr": 8192, "thr": 31.5, "loud": 100, "tail": 8192, "entries": ["region_method"]}},
    ]


@st.composite
def strategy(draw, maxwin):
    c = draw(audio.audio_case(maxwin=maxwin, shapes=True))
    c["entry"] = draw(st.sampled_from(ENTRIES))
    c["audio"]["wav_trailer"] = draw(st.booleans())
    if c["entry"].startswith("region") and draw(st.booleans()):
        c["audio"]["region_opts"] = {
            "start": draw(st.one_of(st.none(), st.sampled_from([0.0, 2.5, 0.1, 1234.5]))),
            "conflict": draw(st.lists(st.sampled_from(["sampling_rate", "sample_width", "channels", "sr", "sw", "ch"]),
                                      unique=True, max_size=3)),
        }
    return c


def jobs(tier, seed):
    b = BOUNDS[tier]
    return [{"name": f"hyp-{i}", "seed": seed * 1000 + i, "n": b["n"], "maxwin": b["maxwin"]} for i in range(16)]


def run_job(job, rec):
    hyp_run(sys.modules[__name__], strategy(job["maxwin"]), rec, job["seed"], job["n"])
