"""C06 - durations in seconds are honoured, counted in analysis windows."""

import math
import sys
from decimal import Decimal
from fractions import Fraction

from hypothesis import strategies as st

from ..common import HarnessError, Violation, hyp_run, import_auditok, run_cases
from ..gen import rarely
from ..oracles import ref_tokens, window_count

import_auditok()
import auditok  # noqa: E402

ID = "C06"
LEVEL = "exploration"
RULE = (
    "Generated cases = rate in {1000,8000,16000} x window w from decimal literals {0.005..0.2} x "
    "(min_dur,max_dur,max_silence) built as Decimal(k)*Decimal(w) -> float (multiples whose float quotient "
    "is often not an integer: 0.07/0.01, 0.14/0.02 ...) or clear non-multiples ((k+1/3)w, (k+1/2)w) x "
    "drop/strict x input kind (bytes + analysis_window, or AudioReader(block_dur=w), the latter sometimes with hop_dur=w/2 - windows then overlap but durations are still counted in block durations) - a quarter of the cases with a "
    "window of B+1/4, B+1/2 or B+3/4 samples, where blocks hold B samples but a non-reader input still counts durations "
    "in the analysis_window argument while a reader counts them in B/rate - x a recording made of "
    "bursts of m-1, m, m+1 windows, bursts separated by s and s+1 quiet windows and one burst of 2M+1 windows "
    "(m,s,M = expected window counts) in generated order, with an optional partial last window. Oracle: counts "
    "from exact rationals (within 1e-9 of an integer -> that integer, else ceil for min, floor for max/silence), "
    "regions (start window, windows) == reference segmentation with those counts. Reject grid: complete "
    "enumeration of 'reject_grid' -> ValueError iff the statement's predicate, success otherwise. "
    "Non-trivial = some duration is an exact decimal multiple of w whose float quotient is not an integer."
)
MUST_HIT = ["event_completed_by_partial_last_window", "input_region", "more_than_256_windows", "input_overlapping_reader", "reader_with_conflicting_window_argument", "hostile_min", "hostile_max", "hostile_sil", "input_reader", "event_of_exactly_minwin", "window_not_whole_samples", "int_typed_window_and_min_dur",
            "grid_int_typed_durations", "grid_accept_with_max_read", "grid_reader_duration_beyond_a_million_samples",
            "grid_reject", "grid_accept"]
ASSUMPTIONS = [
    "quotients between 1e-11 and 1e-8 from an integer are never generated (statement says 1e-9, code uses 1e-10)",
    "16-bit mono audio with amplitude 4096 (72 dB) vs digital silence at the default threshold: energy is C07's subject",
]
BOUNDS = {"quick": dict(n=500), "thorough": dict(n=8000)}
WINDOWS = ("0.005", "0.01", "0.02", "0.025", "0.03", "0.05", "0.1", "0.2", "0.0125", "0.035", "0.07", "0.141", "0.071", "0.0375", "0.0025")
RATES = (1000, 8000, 16000)
LOUD = (4096).to_bytes(2, "little", signed=True)

G_MIN = (-1, 0, 1e-7, 0.01, 0.05, 0.07, 0.1, 0.3)
G_MAX = (-1, 0, 1e-7, 0.01, 0.05, 0.1, 0.3, 5)
G_SIL = (-1, -1e-10, -5e-11, -1e-12, 0, 1e-7, 0.01, 0.05, 0.1, 0.3)
G_W = (-1, 0, 1e-7, 1e-4, 0.01, 0.05, 0.1)
G_RATE = (10, 1000, 16000)


def dur_value(spec, w):
    """spec = [k, form]; form 'mul' -> Decimal(k)*Decimal(w); 'third'/'half' non-multiples.
    w is a decimal literal (str) or, for windows that are not a whole number of
    samples, the float window itself."""
    k, form = spec
    if form == "mul":
        if isinstance(w, float):
            return k * w
        return float(Decimal(k) * Decimal(w))
    if form == "third":
        return (k + 1 / 3) * float(w)
    if form == "half":
        return (k + 0.5) * float(w)
    if form == "hair_up":   # 5e-7 of a window beyond k windows: not within 1e-9 -> k+1 for min, k for max
        return (k + 5e-7) * float(w)
    if form == "hair_down":  # 5e-7 of a window short of k windows -> k for min, k-1 for max
        return (k - 5e-7) * float(w)
    raise HarnessError(form)


def hostile(d, w):
    """exact decimal multiple whose float quotient is not an integer"""
    q = d / w
    return q != round(q)


def overlap_requested(case, B):
    return bool(case.get("overlap")) and case["via_reader"] and B % 2 == 0 and not case.get("wf")


def make_audio(pat, B, tail):
    out = bytearray()
    for c in pat:
        out += (LOUD if c == "1" else b"\0\0") * B
    out += b"\0\0" * tail
    return bytes(out)


def check_case(case, rec):
    if "grid" in case:
        return check_grid(case, rec)
    sr = case["sr"]
    classes = set()
    if case.get("wf"):
        # a window that is NOT a whole number of samples: blocks hold floor(w*rate)
        # samples, but for non-reader inputs durations are still counted in w
        B, frac = case["wf"]
        w = (B + frac) / sr
        wlit = w
        q = Fraction(w) * sr
        if not (B + Fraction(1, 1000) < q < B + 1 - Fraction(1, 1000)):
            raise HarnessError("fractional window too close to a sample boundary")
        classes.add("window_not_whole_samples")
    else:
        wlit = case["w"]
        w = float(wlit)
        B = int(Fraction(wlit) * sr)
        if Fraction(wlit) * sr != B or B == 0:
            raise HarnessError("window must be an integral number of samples")
    via_reader = case["via_reader"]
    # effective window the statement refers to
    w_eff = (B / sr) if via_reader else w
    if case.get("wf"):
        wlit = w_eff  # durations are built around the window that counts for this input kind
    mind = dur_value(case["min"], wlit)
    maxd = dur_value(case["max"], wlit)
    sild = dur_value(case["sil"], wlit) if case["sil"][0] or case["sil"][1] != "mul" else 0
    if case.get("ints") and not case.get("wf") and w == int(w):
        # whole numbers of seconds handed over as ints
        w = int(w)
        w_eff = (B / sr) if via_reader else w
        mind, maxd, sild = (int(v) if v == int(v) else v for v in (mind, maxd, sild))
        classes.add("int_typed_window" + ("_and_min_dur" if isinstance(mind, int) else ""))
    kmin, g1 = window_count(mind, w_eff, "min")
    kmax, g2 = window_count(maxd, w_eff, "max")
    ksil, g3 = window_count(sild, w_eff, "sil")
    if g1 or g2 or g3:
        rec.extra["grey_skipped"] += 1
        return
    if not (1 <= kmin <= kmax and ksil < kmax):
        raise HarnessError(f"generated invalid combination {case}")
    # recording: bursts around the expected counts, in the generated order
    pieces = {"a": "1" * max(kmin - 1, 0), "b": "1" * kmin, "c": "1" * (kmin + 1),
              "d": "1" * kmin + "0" * ksil + "1" * kmin, "e": "1" * kmin + "0" * (ksil + 1) + "1" * kmin,
              "f": "1" * (2 * kmax + 1), "g": "1" * kmax, "h": "1" * (kmax + 1)}
    gap = "0" * (ksil + 2)
    pat = gap.join(pieces[k] for k in case["order"]) + "0" * case["trail"]
    tail_loud = bool(case.get("tail_loud")) and case["tail"] > 0 and not overlap_requested(case, B)
    if tail_loud:
        # the recording ends with kmin-1 loud windows and a loud partial window: an event of kmin windows
        if case.get("only_tail_event"):
            pat = "1" * (kmin - 1)  # the whole recording is that one event
        else:
            pat = pat + "0" * (ksil + 2) + "1" * (kmin - 1)
        data = make_audio(pat, B, 0) + LOUD * case["tail"]
        classes.add("event_completed_by_partial_last_window")
    else:
        data = make_audio(pat, B, case["tail"])
    kw = dict(min_dur=mind, max_dur=maxd, max_silence=sild, drop_trailing_silence=case["drop"],
              strict_min_dur=case["strict"])
    overlap = bool(case.get("overlap")) and via_reader and B % 2 == 0 and not case.get("wf")
    if via_reader:
        rkw = {"hop_dur": (B // 2) / sr} if overlap else {}
        src = auditok.AudioReader(data, block_dur=w, sampling_rate=sr, sample_width=2, channels=1, **rkw)
        classes.add("input_reader")
        if overlap:
            classes.add("input_overlapping_reader")
        if case.get("conflict_aw"):
            # for a reader input the window is the reader's block duration, whatever else is passed
            kw["analysis_window" if case["conflict_aw"] == "long" else "aw"] = w * 2.5
            classes.add("reader_with_conflicting_window_argument")
    elif case.get("input") in ("region_fn", "region_method"):
        src = auditok.AudioRegion(data, sr, 2, 1)
        kw.update(analysis_window=w)
        classes.add("input_region")
    else:
        src = data
        kw.update(analysis_window=w, sampling_rate=sr, sample_width=2, channels=1)
    if case.get("input") == "region_method" and not via_reader:
        regions = list(src.split(**kw))
    else:
        regions = list(auditok.split(src, **kw))
    got = [(round(r.start * sr / B), -(-len(r) // B)) for r in regions]
    valid = [c == "1" for c in pat] + ([tail_loud] if case["tail"] else [])
    if overlap:
        # windows overlap by half: window k covers samples [k*B/2, k*B/2+B); it is active iff it holds a loud
        # sample (half a window at amplitude 4096 is 69 dB).  Durations are still counted in block durations.
        from ..oracles import block_model

        N = len(data) // 2
        loud = [c == "1" for c in pat for _ in range(B)] + [False] * case["tail"]
        spans, _V = block_model(N, B, B // 2, None)
        valid = [any(loud[a:b]) for a, b in spans]
    exp = [(s, e - s + 1) for s, e in ref_tokens(valid, kmin, kmax, ksil, case["strict"], case["drop"])]
    nt = False
    for nm, d in (("min", mind), ("max", maxd), ("sil", sild)):
        if case[nm][1] == "mul" and d and hostile(d, w_eff):
            classes.add(f"hostile_{nm}")
            nt = True
    if any(ln == kmin for _s, ln in exp):
        classes.add("event_of_exactly_minwin")
    if kmax > 256:
        classes.add("more_than_256_windows")
    rec.note(case, nt, classes, out={"counts": [kmin, kmax, ksil], "regions": got})
    if got != exp:
        raise Violation(
            f"min_dur={mind!r} max_dur={maxd!r} max_silence={sild!r} window={w_eff!r}: expected counts "
            f"(min,max,sil)=({kmin},{kmax},{ksil}); regions (start window, windows) {got} != {exp}", case)
    for r in regions:
        if r.duration > maxd + 1e-9:
            raise Violation(f"event lasts {r.duration} > max_dur {maxd}", case)


def grid_expect(mind, maxd, sild, w, sr):
    if mind <= 0 or maxd <= 0 or sild < 0 or w <= 0:
        return True
    if math.floor(Fraction(w) * sr) == 0:
        return True
    kmin, _ = window_count(mind, w, "min")
    kmax, _ = window_count(maxd, w, "max")
    ksil, _ = window_count(sild, w, "sil")
    return kmin > kmax or ksil >= kmax


def check_grid(case, rec):
    mind, maxd, sild, w, sr = case["grid"]
    kind = case.get("input", "bytes")
    w_eff = w
    if kind == "reader" and w > 0 and math.floor(Fraction(w) * sr) >= 1:
        w_eff = math.floor(Fraction(w) * sr) / sr  # a reader's own block duration is the window
    reject = grid_expect(mind, maxd, sild, w_eff, sr)
    data = b"\0\0" * 40
    kw = dict(min_dur=mind, max_dur=maxd, max_silence=sild, analysis_window=w)
    if case.get("mr") is not None:
        # how much is going to be read has no say in whether the durations are a valid combination
        kw["max_read"] = case["mr"]
    try:
        if kind == "reader":
            kw.pop("analysis_window")
            mr = kw.pop("max_read", None)
            rd = auditok.AudioReader(data, block_dur=w, sampling_rate=sr, sample_width=2, channels=1, max_read=mr)
            res = list(auditok.split(rd, **kw))
        elif kind == "bytes":
            res = list(auditok.split(data, sampling_rate=sr, sample_width=2, channels=1, **kw))
        elif kind == "region_fn":
            res = list(auditok.split(auditok.AudioRegion(data, sr, 2, 1), **kw))
        else:
            res = list(auditok.AudioRegion(data, sr, 2, 1).split(**kw))
        raised = None
    except ValueError as exc:
        raised = exc
    labels = ["grid_reject" if reject else "grid_accept"]
    if case.get("sweep"):
        labels.append("decimal_product_sweep")
    if case.get("mr") is not None and not reject:
        labels.append("grid_accept_with_max_read")
    if all(isinstance(v, int) for v in (mind, maxd, sild, w)):
        labels.append("grid_int_typed_durations")
    if kind == "reader" and not reject and maxd * sr > 10**6:
        labels.append("grid_reader_duration_beyond_a_million_samples")
    rec.note(case, True, labels, out="ValueError" if raised else "ok")
    if reject and raised is None:
        raise Violation(f"split accepted (min,max,sil,w,rate)={case['grid']}, ValueError expected", case)
    if not reject and raised is not None:
        raise Violation(f"split rejected valid (min,max,sil,w,rate)={case['grid']}: {raised}", case)
    if not reject and res:
        raise Violation("regions detected in digital silence", case)


def explicit_cases():
    base = dict(sr=1000, w="0.01", min=[7, "mul"], max=[30, "mul"], sil=[3, "mul"], drop=False, strict=False,
                via_reader=False, order="abcdef", trail=3, tail=0)
    return [
        base,
        dict(base, via_reader=True, tail=4),
        dict(base, tail=6, tail_loud=True, input="region_fn", min=[3, "mul"], max=[30, "mul"], sil=[1, "mul"], order="ab"),
        dict(base, tail=3, tail_loud=True, input="region_method", min=[3, "mul"], max=[30, "mul"], sil=[1, "mul"], order="b"),
        dict(base, tail=7, tail_loud=True, only_tail_event=True, input="region_fn", min=[3, "mul"], max=[30, "mul"], sil=[1, "mul"]),
        dict(base, tail=1, tail_loud=True, only_tail_event=True, input="region_method", min=[1, "mul"], max=[5, "mul"], sil=[0, "mul"]),
        dict(base, w="0.005", min=[3, "mul"], max=[257, "mul"], sil=[2, "mul"], order="fgh"),
        dict(base, w="0.01", min=[257, "mul"], max=[300, "mul"], sil=[257, "mul"], order="bdef", via_reader=True),
        dict(base, via_reader=True, conflict_aw="long"),
        dict(base, via_reader=True, overlap=True, min=[3, "mul"], max=[6, "mul"], sil=[1, "mul"]),
        dict(base, w="0.02", min=[7, "mul"], max=[29, "mul"], sil=[7, "mul"]),
        dict(base, w="0.03", sr=8000, min=[9, "mul"], max=[19, "third"], sil=[0, "mul"], drop=True, strict=True),
        dict(base, w="0.1", min=[3, "mul"], max=[3, "mul"], sil=[2, "half"], order="fgh"),
        dict(base, sr=10, wf=[2, 0.5], min=[2, "mul"], max=[4, "mul"], sil=[1, "mul"]),
        dict(base, sr=10, wf=[2, 0.5], min=[2, "mul"], max=[4, "mul"], sil=[1, "mul"], via_reader=True),
        dict(base, sr=100, wf=[5, 0.75], min=[3, "third"], max=[30, "mul"], sil=[0, "mul"]),
        dict(base, sr=10, w="2", ints=True, min=[1, "half"], max=[5, "mul"], sil=[1, "mul"], order="abcd"),   # min_dur=3, window=2
        dict(base, sr=10, w="2", ints=True, min=[2, "half"], max=[4, "half"], sil=[0, "half"], order="abcdgh", input="region_fn"),
        dict(base, sr=8, w="3", ints=True, min=[1, "third"], max=[3, "mul"], sil=[1, "mul"], order="abc", input="region_method"),
        dict(base, sr=8, w="1", ints=True, min=[2, "mul"], max=[6, "mul"], sil=[2, "mul"], order="abcdef", via_reader=True),
        # more than a million samples per max_dur through a 48 kHz reader: 641 windows of 0.05 s
        dict(base, sr=48000, w="0.05", via_reader=True, min=[3, "mul"], max=[641, "mul"], sil=[2, "mul"], order="h"),
        {"grid": [0.07, 0.1, 0.05, 0.01, 1000]},
        {"grid": [0.07, 0.07, 0.0, 0.01, 1000]},
        {"grid": [0.3, 0.3, 0.3, 0.1, 16000]},
        # the same number of windows written in two ways a few ulps apart
        {"grid": [3 * 0.1, 0.3, 0.0, 0.1, 1000]},
        {"grid": [0.1 + 0.2, 0.3, 0.1 + 0.1, 0.1, 1000], "input": "region_fn"},
        {"grid": [0.7, 7 * 0.1, 0.0, 0.1, 1000], "input": "region_method"},
        # a window shorter than one sample, whatever the input kind
        {"grid": [0.1, 0.3, 0.0, 1e-4, 1000], "input": "region_fn"},
        {"grid": [0.1, 0.3, 0.0, 1e-4, 1000], "input": "region_method"},
        # a hundred thousand windows: the 1e-9 tolerance is absolute, it does not grow with the quotient
        {"grid": [100.000000005, 100.0, 0.0, 0.001, 1000]},
        {"grid": [100.0, 99.999999995, 0.0, 0.001, 1000]},
        {"grid": [100.0, 100.0, 99.999, 0.001, 1000]},
        {"grid": [100.0, 100.0, 99.998999995, 0.001, 1000]},
        # 5e-7 of a window beyond 1000 windows is not "within 1e-9 of an integer"
        {"grid": [(1000 + 5e-7) * 0.01, 10.0, 0.0, 0.01, 1000]},
        {"grid": [10.0, (1000 - 5e-7) * 0.01, 0.0, 0.01, 1000]},
        {"grid": [5.0, 10.0, (1000 - 5e-7) * 0.01, 0.01, 1000]},
        {"grid": [5.0, 10.0, (1000 + 5e-7) * 0.01, 0.01, 1000]},
        # max_read shorter than min_dur / than max_silence: still a valid combination (there is just less to detect)
        {"grid": [0.5, 5, 0.2, 0.1, 10], "mr": 0.3}, {"grid": [0.1, 5, 0.3, 0.1, 10], "mr": 0.3},
        {"grid": [0.2, 5, 0.4, 0.1, 10], "mr": 0.25, "input": "region_fn"}, {"grid": [1.0, 2.0, 0.5, 0.1, 10], "mr": 0.9, "input": "reader"},
        {"grid": [0.5, 5, 0.2, 0.1, 10], "mr": 0.0}, {"grid": [0.3, 0.2, 0.0, 0.1, 10], "mr": 0.3},
        # durations and window given as ints (seconds)
        {"grid": [3, 2, 0, 2, 10]}, {"grid": [3, 4, 0, 2, 10]}, {"grid": [3, 3, 1, 2, 10], "input": "region_fn"},
        {"grid": [5, 6, 4, 2, 10], "input": "region_method"}, {"grid": [5, 6, 6, 3, 10]}, {"grid": [4, 3, 0, 3, 10], "input": "reader"},
        {"grid": [1, 1, 0, 1, 8]}, {"grid": [7, 8, 3, 4, 8], "input": "reader"},
    ] + [
        # a window of exactly 1/rate seconds at rates where the float product (1/rate)*rate falls short of 1:
        # the window holds no whole sample
        {"grid": [0.5, 1.0, 0.0, 1 / r, r], "input": k} for r in (49, 98, 103, 107, 161, 187, 196) for k in ("bytes", "reader")
    ] + [
        # reader inputs at 48 kHz with durations beyond a million samples: n windows of 0.05 s is n windows
        {"grid": [round(n * 0.05, 2), round(n * 0.05, 2), 0, 0.05, 48000], "input": "reader"} for n in (641, 646, 651, 656, 700, 1000, 1203)
    ] + [
        {"grid": [round(n * 0.05, 2), round((n - 1) * 0.05, 2), 0, 0.05, 48000], "input": "reader"} for n in (641, 1000)
    ] + [
        {"grid": [0.05, round(n * 0.02, 2), round((n - 1) * 0.02, 2), 0.02, 44100], "input": "reader"} for n in (1201, 1500, 2000, 3001)
    ]


@st.composite
def strategy(draw):
    sr = draw(st.sampled_from(RATES))
    w = draw(st.sampled_from(WINDOWS))
    kmax = draw(st.integers(1, 40))
    big = draw(rarely(25))
    if big:
        kmax = draw(st.sampled_from([255, 256, 257, 258, 300, 512, 513]))  # counts above CPython's small-int cache
    kmin = draw(st.integers(1, kmax)) if not big else draw(st.sampled_from([1, 3, 256, 257, kmax]).filter(lambda v: v <= kmax))
    ksil = draw(st.integers(0, kmax - 1)) if not big else draw(st.sampled_from([0, 2, 255, 256, 257, kmax - 1]).filter(lambda v: v < kmax))
    fmin = draw(st.sampled_from(["mul", "mul", "third", "half"]))
    fmax = draw(st.sampled_from(["mul", "mul", "third", "half"]))
    fsil = draw(st.sampled_from(["mul", "mul", "third", "half"]))
    if big:
        sr, w = 1000, draw(st.sampled_from(["0.005", "0.01"]))
        if kmin < kmax and draw(st.booleans()):
            fmin = "hair_down"      # still kmin windows
        if ksil + 1 < kmax and draw(st.booleans()):
            fsil = "hair_up"        # still ksil windows
        if draw(st.booleans()):
            fmax = "hair_up"        # still kmax windows
    order = "".join(draw(st.permutations("abcdefgh")))[: draw(st.integers(2, 8))]
    if Fraction(w) * sr != int(Fraction(w) * sr):
        sr = 8000  # every window of the list is a whole number of samples at 8 kHz
    B = int(Fraction(w) * sr)
    wf = None
    if draw(st.integers(0, 3)) == 0:
        sr = draw(st.sampled_from([10, 100, 1000]))
        B = draw(st.integers(1, 8))
        wf = [B, draw(st.sampled_from([0.25, 0.5, 0.75]))]
    ints = False
    if wf is None and not big and draw(rarely(8)):
        sr, w, ints = draw(st.sampled_from([8, 10])), draw(st.sampled_from(["1", "2", "3"])), True
        kmax = min(kmax, 12)
        kmin, ksil = min(kmin, kmax), min(ksil, kmax - 1)
        B = int(w) * sr
    return {
        "ints": ints,
        "sr": sr, "w": w, "wf": wf,
        "min": [kmin if fmin in ("mul", "hair_down") else kmin - 1, fmin],
        "max": [kmax, fmax], "sil": [ksil, fsil],
        "drop": draw(st.booleans()), "strict": draw(st.booleans()),
        "via_reader": draw(st.booleans()), "overlap": draw(st.integers(0, 3)) == 0, "conflict_aw": draw(st.sampled_from([None, None, "long", "short"])),
        "order": order,
        "trail": draw(st.integers(0, 3)), "tail": draw(st.integers(0, B - 1) | st.just(0)),
        "tail_loud": draw(st.booleans()), "only_tail_event": draw(st.booleans()), "input": draw(st.sampled_from(["bytes", "region_fn", "region_method"])),
    }


def _grid(rates):
    k = 0
    for sr in rates:
        for w in G_W:
            for mind in G_MIN:
                for maxd in G_MAX:
                    for sild in G_SIL:
                        k += 1
                        # the kind of input rotates: the decision must not depend on it
                        yield {"grid": [mind, maxd, sild, w, sr], "input": ("bytes", "region_fn", "region_method")[k % 3]}


def _sweep(lo, hi, nmax):
    """n windows of k milliseconds written as the decimal product n*k/1000: exactly n windows, for the
    rounding up (min_dur) as for the rounding down (max_dur, max_silence) - min_dur == max_dur == n*w is a
    valid combination, and max_silence == n*w is not (it equals max_dur)."""
    for k in range(lo, hi):
        w = float(Decimal(k) / Decimal(1000))
        for n in range(1, nmax + 1):
            d = float(Decimal(n) * Decimal(k) / Decimal(1000))
            kind = ("bytes", "region_fn", "reader")[(k + n) % 3]
            if kind == "reader" and math.floor(Fraction(w) * 1000) != k:
                kind = "bytes"  # (the float k/1000 lies a hair below k samples: how many samples a reader's block holds is C10's razor case)
            yield {"grid": [d, d, 0.0, w, 1000], "input": kind, "sweep": True}
            if n > 1:
                dm = float(Decimal(n - 1) * Decimal(k) / Decimal(1000))
                yield {"grid": [w, d, dm, w, 1000], "input": "bytes", "sweep": True}


def jobs(tier, seed):
    b = BOUNDS[tier]
    out = [{"name": f"grid-{sr}-{w}", "kind": "grid", "sr": sr, "w": w} for sr in G_RATE for w in G_W]
    kmax, nmax = (151, 130) if tier == "quick" else (401, 400)
    out += [{"name": f"sweep-{lo}", "kind": "sweep", "lo": lo, "hi": min(lo + 10, kmax), "nmax": nmax} for lo in range(1, kmax, 10)]
    out += [{"name": f"hyp-{i}", "kind": "hyp", "seed": seed * 1000 + i, "n": b["n"]} for i in range(16)]
    return out


def run_job(job, rec):
    mod = sys.modules[__name__]
    if job["kind"] == "sweep":
        run_cases(mod, _sweep(job["lo"], job["hi"], job["nmax"]), rec)
    elif job["kind"] == "grid":
        run_cases(mod, (c for c in _grid([job["sr"]]) if c["grid"][3] == job["w"]), rec)
    else:
        hyp_run(mod, strategy(), rec, job["seed"], job["n"])


def extra_coverage(tier):
    return {"reject_grid": f"min_dur in {G_MIN} x max_dur in {G_MAX} x max_silence in {G_SIL} x window in {G_W} x rate in {G_RATE} = {len(G_MIN)*len(G_MAX)*len(G_SIL)*len(G_W)*len(G_RATE)} tuples, enumerated completely"}
