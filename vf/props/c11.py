"""C11 - audio sources hand out successive whole-sample chunks, then None
(rule-based state machine over read / position / rewind / close / open)."""

import io
import math
import os
import sys
import threading
from fractions import Fraction

from hypothesis import strategies as st
from hypothesis.stateful import RuleBasedStateMachine, initialize, rule

from ..gen import rarely
from ..common import HarnessError, Violation, hyp_run_machine, import_auditok, lib_guard, tmpdir
from . import c10

import_auditok()
from auditok.exceptions import AudioIOError  # noqa: E402
from auditok.io import BufferAudioSource, RawAudioSource, StdinAudioSource, WaveAudioSource  # noqa: E402

ID = "C11"
LEVEL = "exploration"
RULE = (
    "Histories = Hypothesis rule-based state machine per source kind (memory buffer, lazy raw file, lazy wav file, "
    "standard input through a rebound sys.stdin - a BytesIO, or a real OS pipe fed in odd-sized "
    "chunks by a writer thread) over audio of 0..40 samples x format, steps drawn from {read(n>=1), read(None), "
    "read(-k), close, open, and for the buffer: position=p in [-N-3,N+3], position_s=t, position_ms=m, rewind, "
    "position read-back}; plus, for buffers of 1.2 s at six rates up to 48 kHz, every integer millisecond position (both "
    "signs) set and read back. Every machine starts with the source not yet opened (a read must raise the I/O error). "
    "Model = (bytes, cursor, open?): read returns bytes[cursor:cursor+min(n,rem)] in whole samples or None when "
    "nothing remains - never b''; closed -> AudioIOError; setters move the cursor (negative from the end; seconds and "
    "milliseconds truncated toward zero, exact rationals with razor), out of range -> IndexError with the cursor "
    "unchanged; rewind/close -> 0; a reopened buffer restarts at sample 0. File and stdin kinds are never reopened "
    "(not claimed). Non-trivial = >= 2 reads and (a position change, a read crossing the end, or a reopen)."
)
RULE += (
    ' Also: a raw source on a named pipe fed piecewise; a second stdin source made after the first was dropped and collected (the stream goes on); 1-2 MiB of audio with requests above 1 MiB, met or cut short by the end.'
)
MUST_HIT = ["millisecond_sweep", "negative_position_bps>1", "past_end_buffer", "past_end_raw", "past_end_wav", "past_end_stdin",
            "read_unopened", "index_error", "reopen_buffer", "read_all_remaining", "read_zero", "raw_named_pipe",
            "second_source_on_same_stdin", "chunk_request_above_1MiB_short", "chunk_request_above_1MiB_met",
            "wav_with_chunk_after_the_audio"]
ASSUMPTIONS = [
    "read(0) must return None (a chunk of min(0, remaining) = 0 samples, and never b'') and leave the cursor where it is",
    "what a raw/wav/stdin source does after close()+open() is not claimed by the statement: those kinds are never reopened",
    "a raw source may be given the path of a named pipe (a file produced while it is read): same chunks as a regular file",
    "a second StdinAudioSource made after the first one was dropped reads on from where the standard input is",
]
BOUNDS = {"quick": dict(n=250, steps=30), "thorough": dict(n=2000, steps=50)}
KINDS = ("buffer", "raw", "wav", "stdin")
MORE_KINDS = ("pipe", "fifo")
_ctr = [0]


class _FakeStdin:
    def __init__(self, data):
        self.buffer = io.BytesIO(data)


class Interp:
    def __init__(self, cfg):
        self.cfg = cfg
        self.ops = []
        self.classes = set()
        sr, sw, ch, N = cfg["sr"], cfg["sw"], cfg["ch"], cfg["N"]
        self.sr, self.N = sr, N
        self.bps = sw * ch
        self.data = c10.content(N, self.bps, cfg["salt"])
        self.kind = cfg["kind"]
        self.paths = []
        self.cleanup = []
        with lib_guard(self.case):
            if self.kind == "buffer":
                self.src = BufferAudioSource(self.data, sr, sw, ch)
            elif self.kind in ("raw", "wav"):
                c = dict(cfg, kind=self.kind + "_lazy", rawname=cfg.get("rawname", ".raw"))
                if self.kind == "wav" and cfg.get("wav_trailer"):
                    self.classes.add("wav_with_chunk_after_the_audio")
                path, _kw, self.paths = c10.make_input(c, self.data)
                self.src = RawAudioSource(path, sr, sw, ch) if self.kind == "raw" else WaveAudioSource(path)
            elif self.kind == "fifo":
                # a raw "file" that is a named pipe, produced while it is read
                c = dict(cfg, kind="raw_fifo", B=max(cfg.get("chunks", [3])[0], 2))
                path, _kw, self.paths = c10.make_input(c, self.data)
                self.src = RawAudioSource(path, sr, sw, ch)
            elif self.kind == "stdin":
                old = sys.stdin
                self.fake = _FakeStdin(self.data)
                try:
                    sys.stdin = self.fake
                    self.src = StdinAudioSource(sr, sw, ch)
                finally:
                    sys.stdin = old
            elif self.kind == "pipe":
                self._make_pipe_source(cfg)
            else:
                raise HarnessError(self.kind)
            if (self.src.sampling_rate, self.src.sample_width, self.src.channels) != (sr, sw, ch):
                raise Violation("source parameters differ from the audio's", self.case())
        self.cur = 0
        self.open = False
        self.closed_once = False
        self.nreads = 0
        self.interesting = False

    def _make_pipe_source(self, cfg):
        from .c09 import _PipeStdin

        pipe = _PipeStdin(self.data, cfg.get("chunks") or [3])
        self.fake = pipe
        old = sys.stdin
        try:
            sys.stdin = pipe
            self.src = StdinAudioSource(cfg["sr"], cfg["sw"], cfg["ch"])
        finally:
            sys.stdin = old
        self.cleanup.append(pipe.finish)

    def case(self):
        return {"cfg": self.cfg, "ops": list(self.ops)}

    def close(self):
        try:
            self.src.close()
        except Exception:  # noqa: BLE001
            pass
        for fn in self.cleanup:
            try:
                fn()
            except Exception:  # noqa: BLE001
                pass
        c10.cleanup(self.paths)

    # ------------------------------------------------------------------
    def applicable(self, op):
        name = op[0]
        if name in ("pos", "pos_s", "pos_ms", "rewind", "get_pos"):
            return self.kind == "buffer"
        if name == "read_all":
            return self.kind in ("buffer", "raw", "wav", "fifo")
        if name == "renew":
            return self.kind in ("stdin", "pipe")
        if name == "open":
            # file / stdin kinds are never reopened
            return self.kind == "buffer" or not self.closed_once
        return True

    def apply(self, op):
        op = list(op)
        if not self.applicable(op):
            return
        self.ops.append(op)
        case = self.case()
        name = op[0]
        src = self.src
        with lib_guard(self.case):
            if name in ("read", "read_all"):
                n = op[1]
                if not self.open:
                    self.classes.add("read_unopened")
                    try:
                        r = src.read(n)
                    except (AudioIOError, OSError):
                        return
                    raise Violation(f"read({n}) on a source that is not open returned {r!r:.40}", case)
                rem = self.N - self.cur
                take = rem if (n is None or n < 0) else min(n, rem)
                want = self.data[self.cur * self.bps: (self.cur + take) * self.bps] if take else None
                got = src.read(n)
                if got != want:
                    raise Violation(
                        f"read({n}) at sample {self.cur} of {self.N} returned "
                        f"{'None' if got is None else repr(len(got)) + ' bytes'}"
                        f"{' (b\"\")' if got == b'' else ''}, expected "
                        f"{'None' if want is None else 'samples [' + str(self.cur) + ',' + str(self.cur + take) + ')'}", case)
                self.nreads += 1
                if n is not None and n * self.bps > (1 << 20) and rem:
                    self.classes.add("chunk_request_above_1MiB_" + ("met" if n <= rem else "short"))
                if n is None or n < 0:
                    self.classes.add("read_all_remaining")
                elif n == 0:
                    self.classes.add("read_zero")
                elif n >= rem:
                    self.classes.add("past_end_" + {"pipe": "stdin", "fifo": "raw"}.get(self.kind, self.kind))
                    if self.kind == "fifo":
                        self.classes.add("raw_named_pipe")
                    if self.nreads >= 2:
                        self.interesting = True
                self.cur += take
            elif name == "open":
                src.open()
                if self.closed_once:
                    self.classes.add("reopen_buffer")
                    self.interesting = True
                self.open = True
                if not src.is_open():
                    raise Violation("is_open() False after open()", case)
            elif name == "close":
                src.close()
                self.open = False
                self.closed_once = True
                if self.kind == "buffer":
                    self.cur = 0
                if src.is_open():
                    raise Violation("is_open() True after close()", case)
            elif name == "renew":
                # the program is done with this source object and makes a new one on the same standard
                # input: the stream goes on where it is (whatever the first one was: open, closed, read or not)
                import gc

                self.src = src = None
                gc.collect()
                old = sys.stdin
                try:
                    sys.stdin = self.fake
                    self.src = StdinAudioSource(self.cfg["sr"], self.cfg["sw"], self.cfg["ch"])
                finally:
                    sys.stdin = old
                self.open = False
                self.closed_once = False
                self.classes.add("second_source_on_same_stdin")
                self.interesting = True
            elif name == "rewind":
                src.rewind()
                self.cur = 0
                self.interesting = True
            elif name == "get_pos":
                p, ps, pms = src.position, src.position_s, src.position_ms
                if p != self.cur:
                    raise Violation(f"position {p} != samples consumed {self.cur}", case)
                if ps != self.cur / self.sr:
                    raise Violation(f"position_s {ps!r} != {self.cur}/{self.sr}", case)
                if pms != (self.cur * 1000) // self.sr:
                    raise Violation(f"position_ms {pms!r} != {(self.cur * 1000) // self.sr}", case)
            elif name in ("pos", "pos_s", "pos_ms"):
                v = op[1]
                if name == "pos":
                    targets = [v]
                else:
                    q = Fraction(v) * self.sr if name == "pos_s" else Fraction(v) * self.sr / 1000
                    t = math.trunc(q)
                    targets = [t]
                    # razor: exact product within 1e-9 of an integer boundary
                    near = min(abs(q - round(q)), 1)
                    if near <= Fraction(1, 10**9) * max(1, abs(q)) and q != round(q):
                        targets = [t, round(q)]
                finals = []
                for t in targets:
                    p = t + self.N if t < 0 else t
                    finals.append(p if 0 <= p <= self.N else None)
                try:
                    if name == "pos":
                        src.position = v
                    elif name == "pos_s":
                        src.position_s = v
                    else:
                        src.position_ms = v
                    raised = False
                except IndexError:
                    raised = True
                now = src.position
                if raised:
                    self.classes.add("index_error")
                    if None not in finals:
                        raise Violation(f"{name}={v!r} raised IndexError, valid target {finals}", case)
                    if now != self.cur:
                        raise Violation(f"{name}={v!r} raised IndexError but moved the cursor to {now}", case)
                else:
                    ok = [f for f in finals if f is not None]
                    if not ok or now not in ok:
                        raise Violation(
                            f"{name}={v!r} (N={self.N}, rate={self.sr}): position is {now}, expected "
                            f"{'IndexError' if not ok else ok}", case)
                    if targets[0] < 0 and self.bps > 1:
                        self.classes.add("negative_position_bps>1")
                    self.cur = now
                    self.interesting = True
            else:
                raise HarnessError(name)

    def nontrivial(self):
        return self.nreads >= 2 and self.interesting


def check_sweep(case, rec):
    """Every integer millisecond (and a grid of second values) inside a buffer longer than a second:
    setter then read-back, against exact rational truncation."""
    cfg = case["cfg"]
    it = Interp(cfg)
    try:
        it.apply(["open"])
        top = (cfg["N"] * 1000) // cfg["sr"] + 2
        for m in range(0, top + 1, case.get("step", 1)):
            it.apply(["pos_ms", m])
            it.apply(["get_pos"])
            it.apply(["pos_ms", -m])
        for k in range(0, top, 7):
            it.apply(["pos_s", k / 1000])
            it.apply(["get_pos"])
        it.ops = it.ops[-6:]
    finally:
        it.close()
    rec.note({"cfg": cfg, "sweep_ms": top}, True, it.classes | {"millisecond_sweep"}, out={"ms_values": top + 1})


def check_case(case, rec):
    if "sweep" in case:
        return check_sweep(case, rec)
    it = Interp(case["cfg"])
    try:
        for op in case["ops"]:
            it.apply(op)
    finally:
        it.close()
    rec.note(case, it.nontrivial(), it.classes, out={"reads": it.nreads})


@st.composite
def config_small(draw, kinds=KINDS):
    return dict(kind=draw(st.sampled_from(kinds)), sr=draw(st.sampled_from([8, 10, 100, 1000, 16000, 44100])),
                sw=draw(st.sampled_from([1, 2, 4])), ch=draw(st.integers(1, 3)),
                N=draw(st.one_of(st.integers(0, 40), st.integers(0, 40), st.sampled_from([1400, 2100, 4096, 5000]))),
                rawname=draw(st.sampled_from([".raw", ".pcm", "", ".bin"])),
                salt=draw(st.integers(0, 10**6)),
                chunks=draw(st.lists(st.integers(1, 13), min_size=1, max_size=4)),
                wav_trailer=draw(st.booleans()))


@st.composite
def config(draw, kinds=KINDS):
    cfg = draw(config_small(kinds))
    if cfg["kind"] in ("stdin", "raw", "fifo", "pipe") and draw(rarely(30)):
        # one or two MiB of audio (exactly, or a sample more): requests above a MiB, met or cut short by the end
        bps = cfg["sw"] * cfg["ch"]
        cfg["N"] = draw(st.sampled_from([1 << 20, 2 << 20])) // bps + draw(st.sampled_from([0, 0, 1]))
        cfg["chunks"] = [60000, 65536, 4099]
    return cfg


def make_machine(kinds):
    class SourceMachine(RuleBasedStateMachine):
        rec = None

        def __init__(self):
            super().__init__()
            self.it = None

        @initialize(cfg=config(kinds), first=st.integers(1, 5))
        def setup(self, cfg, first):
            self.it = Interp(cfg)
            self.it.apply(["read", first])  # not yet opened: must raise
            self.it.apply(["open"])

        @rule(n=st.integers(1, 12))
        def read(self, n):
            self.it.apply(["read", n])

        @rule(n=st.sampled_from([100, 127, 333, 500, 1000, 1365, 2048]))
        def read_big(self, n):
            if self.it.N > 1000:
                self.it.apply(["read", n])

        @rule()
        def read_zero(self):
            # min(0, remaining) = 0 samples and never b'' -> None, cursor unchanged
            self.it.apply(["read", 0])

        @rule(n=st.one_of(st.none(), st.integers(-5, -1)))
        def read_all(self, n):
            self.it.apply(["read_all", n])

        @rule()
        def close(self):
            self.it.apply(["close"])

        @rule(go=rarely(4))
        def renew(self, go):
            if go:
                self.it.apply(["renew"])
                self.it.apply(["open"])

        @rule(k=st.sampled_from([0, 1, 2, 3]))
        def read_huge(self, k):
            it = self.it
            if it.N * it.bps >= (1 << 20) and it.kind != "wav":
                over = (1 << 20) // it.bps + 1
                it.apply(["read", [over, it.N - it.cur + 5, 2 * it.N, it.N][k]])

        @rule()
        def open(self):
            self.it.apply(["open"])

        @rule(d=st.integers(-3, 3), from_end=st.booleans())
        def pos(self, d, from_end):
            N = self.it.N
            self.it.apply(["pos", (-N + d) if from_end else (N + d if d > 0 else -d * 2)])

        @rule(p=st.integers(-50, 50))
        def pos_any(self, p):
            self.it.apply(["pos", p])

        @rule(k=st.integers(-45, 45), eps=st.sampled_from([0.0, 0.3, -0.3, 0.5]))
        def pos_s(self, k, eps):
            self.it.apply(["pos_s", (k + eps) / self.it.sr])

        @rule(m=st.integers(-6000, 6000))
        def pos_ms(self, m):
            self.it.apply(["pos_ms", m])

        @rule()
        def rewind(self):
            self.it.apply(["rewind"])

        @rule()
        def get_pos(self):
            self.it.apply(["get_pos"])

        def teardown(self):
            if self.it is not None:
                self.it.close()
                self.rec.note(self.it.case(), self.it.nontrivial(), self.it.classes, out={"reads": self.it.nreads})

    return SourceMachine


def explicit_cases():
    cfg = dict(kind="buffer", sr=10, sw=2, ch=2, N=12, salt=3)
    sweeps = [{"sweep": True, "cfg": dict(kind="buffer", sr=sr, sw=1, ch=2, N=int(sr * 1.2), salt=sr)}
              for sr in (1000, 8000, 11025, 16000, 44100, 48000)]
    return sweeps + [
        {"cfg": cfg, "ops": [["read", 2], ["open"], ["read", 5], ["get_pos"], ["pos", -3], ["read", 10], ["read", 1],
                             ["pos", 13], ["pos", -13], ["pos_s", -0.5], ["get_pos"], ["pos_ms", 700], ["read_all", None],
                             ["read_all", -1], ["close"], ["read", 1], ["open"], ["read", 3], ["rewind"], ["read", 1]]},
        {"cfg": dict(cfg, kind="raw"), "ops": [["read", 1], ["open"], ["read", 5], ["read", 0], ["read", 20], ["read", 1], ["close"], ["read", 1]]},
        {"cfg": dict(cfg, kind="raw", N=2100, sw=4, ch=3, rawname=".pcm"), "ops": [["open"], ["read", 127], ["read", 333], ["read", 127], ["read", 1000], ["read", 1000], ["read", 5]]},
        {"cfg": dict(cfg, kind="wav"), "ops": [["open"], ["read", 11], ["read_all", -2], ["read_all", None], ["read", 3]]},
        {"cfg": dict(cfg, kind="wav", wav_trailer=True), "ops": [["open"], ["read", 5], ["read_all", None], ["read", 3]]},
        {"cfg": dict(cfg, kind="wav", wav_trailer=True, sw=1, ch=1, N=7), "ops": [["open"], ["read_all", -1], ["read_all", None]]},
        {"cfg": dict(cfg, kind="wav", wav_trailer=True, sw=1, ch=3, N=5), "ops": [["open"], ["read", 2], ["read", 9], ["read", 1]]},
        {"cfg": dict(cfg, kind="stdin", sw=4), "ops": [["read", 1], ["open"], ["read", 5], ["read", 7], ["read", 1], ["read", 1]]},
        {"cfg": dict(cfg, kind="pipe", sw=4, ch=3, chunks=[5, 1, 7]), "ops": [["open"], ["read", 5], ["read", 6], ["read", 4], ["read", 1]]},
        {"cfg": dict(cfg, kind="fifo", sw=2, ch=3, N=30, chunks=[5]), "ops": [["read", 2], ["open"], ["read", 5], ["read", 0], ["read", 7], ["read", 40], ["read", 1]]},
        {"cfg": dict(cfg, kind="fifo", sw=1, ch=1, N=9, chunks=[2]), "ops": [["open"], ["read", 4], ["read_all", None], ["read", 1]]},
        {"cfg": dict(cfg, kind="stdin", sw=2, ch=1), "ops": [["open"], ["read", 5], ["renew"], ["open"], ["read", 4], ["close"], ["renew"], ["read", 1], ["open"], ["read", 9], ["read", 1]]},
        {"cfg": dict(cfg, kind="pipe", sw=2, ch=1, chunks=[3, 4]), "ops": [["renew"], ["open"], ["read", 5], ["renew"], ["open"], ["read", 9], ["read", 1]]},
        {"cfg": dict(cfg, kind="stdin", sw=2, ch=1, N=1 << 19), "ops": [["open"], ["read", 600000], ["read", 1]]},
        {"cfg": dict(cfg, kind="stdin", sw=2, ch=1, N=1 << 20), "ops": [["open"], ["read", 3 << 19], ["read", 1]]},
        {"cfg": dict(cfg, kind="stdin", sw=2, ch=2, N=(1 << 19) + 7), "ops": [["open"], ["read", (1 << 18) + 1], ["read", 1 << 19], ["read", 1]]},
        {"cfg": dict(cfg, kind="pipe", sw=2, ch=1, N=1 << 19, chunks=[65536, 60000]), "ops": [["open"], ["read", 600000], ["read", 1]]},
        {"cfg": dict(cfg, kind="raw", sw=2, ch=1, N=1 << 19), "ops": [["open"], ["read", 600000], ["read", 1]]},
    ]


def jobs(tier, seed):
    b = BOUNDS[tier]
    out = []
    for i in range(16):
        out.append({"name": f"sm-{KINDS[i % 4]}-{i}", "kinds": [KINDS[i % 4]], "seed": seed * 1000 + i,
                    "n": b["n"], "steps": b["steps"]})
    for i in range(8 if tier == "thorough" else 4):
        out.append({"name": f"sm-{MORE_KINDS[i % 2]}-{i}", "kinds": [MORE_KINDS[i % 2]], "seed": seed * 1000 + 100 + i,
                    "n": 150 if tier == "thorough" else 40, "steps": 20})
    return out


def run_job(job, rec):
    hyp_run_machine(sys.modules[__name__], make_machine(tuple(job["kinds"])), rec, job["seed"], job["n"], job["steps"])
