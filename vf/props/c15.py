"""C15 - the command line reports exactly what the API detects; the duration
formatter is faithful."""

import contextlib
import io
import math
import os
import subprocess
import sys
import threading
import time as _time
import wave
from fractions import Fraction

from hypothesis import strategies as st

from .. import audio, pipeline
from ..gen import rarely
from ..common import REPO, HarnessError, Violation, hyp_run, import_auditok, tmpdir
from ..oracles import exact_round, fmt_seconds3, whole_millis
from . import c12

import_auditok()
import auditok  # noqa: E402
import auditok.cmdline as CMD  # noqa: E402
import auditok.workers as W  # noqa: E402
from auditok.exceptions import TimeFormatError  # noqa: E402
from auditok.util import make_duration_formatter  # noqa: E402

ID = "C15"
LEVEL = "exploration"
RULE = (
    "CLI cases = option vector over -n -m -s -a -e -d -R -u -M -r -c -w -f -L -q --printf --time-format "
    "--timestamp-format -o -O -j (each independently present or absent, so the documented defaults 0.2/5/0.3/0.01/50/"
    "16000/1/2 - typed into the harness from the help text - are exercised; values valid by construction, plus -j "
    "without -O) x synthesized recording supplied as .wav, .raw (+ -r -c -w), extension-less with -f raw, or standard "
    "input ('-'); auditok.cmdline.main(argv) is run in-process (its once-per-second poll shortened to 2 ms) with "
    "stdout/stderr captured; the thorough tier also launches real `python -m auditok.cmdline` subprocesses (file and "
    "piped stdin). Oracle: stdout == one line per region of split() with the mapped parameters, rendered by the harness's "
    "own printf/time formatter (ids from 1); exit status 0; -q -> no output; -j without -O -> status 1, nothing written; "
    "-O / -o / -j files as in C13. Formatter cases = duration in [0,1e6) with boundary bias (k/1000 +- ulp, 59.9996, "
    "3599.9999, ...) x format (%S, %I, or %h %m %s %i in any order with literal text; unknown directives). Oracle: %S == "
    "round-half-even to 3 decimals of the exact value; %I == floor(1000 t) (+1 allowed within 1e-9 below an integer); "
    "fields zero-padded (2,2,2,3), m,s < 60, i < 1000, recomposing to that value; unknown directive -> TimeFormatError. "
    "Non-trivial CLI case = >= 1 printed detection and >= 3 non-default options; formatter case = not at a default format."
)
MUST_HIT = ["input_stdin", "input_wav", "input_raw", "input_noext_f_raw", "opt_u_int", "opt_u_mix", "opt_M", "opt_L",
            "opt_q", "opt_j_without_O", "opt_O", "opt_O_raw", "opt_o", "opt_j", "fmt_S", "fmt_I", "fmt_hmsi", "fmt_unknown",
            "cli_defaults_n_m_s", "default_n", "default_m", "default_s", "default_a", "default_e",
            "input_stdin_real_pipe", "window_not_whole_samples", "stdin_window_above_64KiB", "slow_consumers", "wav_input_with_ignored_raw_parameters"]
ASSUMPTIONS = [
    "-E, -C, -p/--save-image, -I/-F and non wav/raw formats cannot run in this sandbox (no pyaudio/pydub/ffmpeg/sox)",
    "-a values are chosen so that a*rate is an integer (window == block duration, cf. C09)",
    "split() is the oracle for the threaded CLI path (judged by C04-C07)",
]
BOUNDS = {"quick": dict(cli=60, fmt=1500, sub=0), "thorough": dict(cli=600, fmt=40000, sub=30)}
_ctr = [0]


class _Shim:
    def __init__(self, limit=5000):
        self.n = 0
        self.limit = limit

    def sleep(self, _s):
        self.n += 1
        if self.n > self.limit:
            raise HarnessError("cli-hang")
        _time.sleep(0.002)

    def __getattr__(self, name):
        return getattr(_time, name)


class _FakeStdin:
    def __init__(self, data):
        self.buffer = io.BytesIO(data)


@contextlib.contextmanager
def slow_consumers(on):
    """The printing and region-saving workers take 4 ms per detection (a slow terminal, a slow disk):
    detections are still queued when the detector is done.  The result must not depend on it."""
    if not on:
        yield
        return
    saved = []
    for cls in (W.PrintWorker, W.RegionSaverWorker):
        orig = cls._process_message

        def slow(self, message, _o=orig):
            _time.sleep(0.004)
            return _o(self, message)

        saved.append((cls, orig))
        cls._process_message = slow
    try:
        yield
    finally:
        for cls, orig in saved:
            cls._process_message = orig


def run_cli(argv, stdin_data=None, pipe=False, slow=False):
    """-> (status, stdout, stderr, raised exception or None, hung?)"""
    if threading.active_count() != 1:
        raise HarnessError(f"process has other live threads: {threading.enumerate()}")
    shim = _Shim()
    old_time, old_stdin, old_argv = CMD.time, sys.stdin, sys.argv
    out, err = io.StringIO(), io.StringIO()
    CMD.time = shim
    sys.argv = ["auditok"]
    pipe_obj = None
    if stdin_data is not None and pipe:
        from .c09 import _PipeStdin

        step = max(len(stdin_data) // 9, 1)
        pipe_obj = _PipeStdin(stdin_data, [step + 1, max(step - 2, 1), 3, step + 4], text=True, process=True)
        sys.stdin = pipe_obj._wrapper  # a text stream whose .buffer(.raw) is the pipe, like the real sys.stdin
    elif stdin_data is not None:
        sys.stdin = _FakeStdin(stdin_data)
    status, exc, hung = None, None, False
    try:
        with contextlib.redirect_stdout(out), contextlib.redirect_stderr(err), slow_consumers(slow):
            try:
                status = CMD.main(list(argv))
            except SystemExit as e:
                status = ("SystemExit", e.code)
            except HarnessError as e:
                if str(e) != "cli-hang":
                    raise
                hung = True
            except Exception as e:  # noqa: BLE001
                exc = e
    finally:
        CMD.time, sys.stdin, sys.argv = old_time, old_stdin, old_argv
        if pipe_obj is not None:
            pipe_obj.finish()
        if hung or exc is not None:
            for t in threading.enumerate():
                if isinstance(t, W.Worker):
                    t.send(W._STOP_PROCESSING)
            for t in threading.enumerate():
                if t is not threading.current_thread():
                    t.join(5)
    return status, out.getvalue(), err.getvalue(), exc, hung


# ------------------------------------------------------------- formatter oracle

def fmt_oracle(fmt, t):
    """-> set of acceptable renderings of duration t under fmt"""
    if fmt == "%S":
        return {fmt_seconds3(t)}
    w, alt = whole_millis(t)
    outs = set()
    for W_ in (w,) + ((alt,) if alt is not None else ()):
        if fmt == "%I":
            outs.add(str(W_))
            continue
        i = W_ % 1000
        s_ = (W_ // 1000) % 60
        m = (W_ // 60000) % 60
        h = W_ // 3600000
        if ((h * 60 + m) * 60 + s_) * 1000 + i != W_:
            raise HarnessError("recomposition")
        txt = fmt.replace("%h", f"{h:02d}").replace("%m", f"{m:02d}").replace("%s", f"{s_:02d}").replace("%i", f"{i:03d}")
        outs.add(txt)
    return outs


def has_unknown(fmt):
    if fmt in ("%S", "%I"):
        return False
    rest = fmt
    for d in ("%h", "%m", "%s", "%i"):
        rest = rest.replace(d, "")
    return "%" in rest


def check_fmt(case, rec):
    fmt, t = case["fmt"], case["dur"]
    classes = set()
    if has_unknown(fmt):
        classes.add("fmt_unknown")
        try:
            f = make_duration_formatter(fmt)
        except TimeFormatError:
            rec.note(case, True, classes, out="TimeFormatError")
            return
        raise Violation(f"format {fmt!r} with an unknown directive accepted (renders {f(t)!r})", case)
    f = make_duration_formatter(fmt)
    got = f(t)
    want = fmt_oracle(fmt, t)
    classes.add({"%S": "fmt_S", "%I": "fmt_I"}.get(fmt, "fmt_hmsi"))
    rec.note(case, fmt != "%S", classes, out=got)
    if got not in want:
        raise Violation(f"duration {t!r} under {fmt!r} rendered {got!r}, expected {sorted(want)}", case)


# ------------------------------------------------------------- CLI

DEFAULTS = dict(n=0.2, m=5, s=0.3, a=0.01, e=50, r=16000, c=1, w=2)


def check_cli(case, rec):
    recd = case["audio"]
    sr, sw, ch, B = recd["sr"], recd["sw"], recd["ch"], recd["B"]
    data, thr = audio.synth(recd)
    aw = audio.window_arg(B, sr)
    if aw != B / sr and not case["opts"].get("a_frac"):
        raise HarnessError("cli cases need a window that is a whole number of samples")
    opts = case["opts"]
    classes = set()
    _ctr[0] += 1
    d = os.path.join(tmpdir(), f"cli_{_ctr[0]}")
    os.makedirs(d)
    try:
        argv = []
        kind = case["input"]
        stdin_data = None
        raw_params = kind != "wav"
        if kind == "wav":
            path = os.path.join(d, "in.wav")
            with wave.open(path, "wb") as fp:
                fp.setframerate(sr)
                fp.setsampwidth(sw)
                fp.setnchannels(ch)
                fp.writeframes(data)
            argv.append(path)
            if opts.get("wav_bogus_params"):
                # -r/-c/-w describe raw input; for a wav file the header governs and they are ignored
                argv += ["-r", str(opts["wav_bogus_params"][0]), "-c", str(opts["wav_bogus_params"][1]), "-w", str(opts["wav_bogus_params"][2])]
                classes.add("wav_input_with_ignored_raw_parameters")
        elif kind in ("raw", "noext"):
            path = os.path.join(d, "in.raw" if kind == "raw" else "in")
            with open(path, "wb") as fp:
                fp.write(data)
            argv.append(path)
            if kind == "noext" or opts.get("f"):
                argv += ["-f", "raw"]
        else:
            argv.append("-")
            stdin_data = data
            if kind == "stdin_pipe":
                classes.add("input_stdin_real_pipe")
        classes.add({"wav": "input_wav", "raw": "input_raw", "noext": "input_noext_f_raw", "stdin": "input_stdin",
                     "stdin_pipe": "input_stdin"}[kind])
        if raw_params:
            # -r/-c/-w are left out when the audio happens to use the documented default
            for flag, val, dflt in (("-r", sr, 16000), ("-c", ch, 1), ("-w", sw, 2)):
                if val != dflt or opts.get("explicit_fmt"):
                    argv += [flag, str(val)]
        win = case["win"]
        kmin, kmax, ksil, drop, strict = win
        w = B / sr
        split_kw = {}
        # durations: given explicitly, or left to the documented defaults when those are valid here
        for flag, key, val in (("-n", "min_dur", (kmin - 0.5) * w), ("-m", "max_dur", (kmax + 0.5) * w),
                               ("-s", "max_silence", (ksil + 0.5) * w if ksil else 0.0)):
            if opts.get("dflt_" + flag[1]):
                split_kw[key] = DEFAULTS[flag[1]]
            else:
                argv += [flag, repr(val)]
                split_kw[key] = val
        if opts.get("dflt_n") and opts.get("dflt_m") and opts.get("dflt_s"):
            classes.add("cli_defaults_n_m_s")
        for k_ in ("n", "m", "s", "a", "e"):
            if opts.get("dflt_" + k_):
                classes.add("default_" + k_)
        if opts.get("dflt_a"):
            aw_used = 0.01
        elif opts.get("a_frac"):
            # -a is half a sample longer than the window really used: block = floor(a*rate) samples,
            # and every duration is counted in that real window (the worker is a reader)
            aw_used = (B + 0.5) / sr
            argv += ["-a", repr(aw_used)]
            classes.add("window_not_whole_samples")
        else:
            argv += ["-a", repr(aw)]
            aw_used = aw
        if opts.get("dflt_e"):
            eth = 50
            if abs(thr - 50) < 0 or recd["al"] < 1000 or recd["aq"] > 3 or sw < 2:
                raise HarnessError("recording not built for the default threshold")
        else:
            argv += ["-e", repr(thr)]
            eth = thr
        if drop:
            argv.append("-d")
        if strict:
            argv.append("-R")
        uc = recd.get("uc")
        if uc is not None:
            argv += ["-u", str(uc)]
            classes.add("opt_u_int" if isinstance(uc, int) else "opt_u_mix")
        mr = None
        vis = data
        if opts.get("M") is not None:
            k, frac = opts["M"]
            mr = (k + frac) / sr
            nvis, razor = exact_round(mr, sr)
            if razor:
                mr = k / sr
                nvis, razor = exact_round(mr, sr)
            if razor:
                mr = None
            else:
                argv += ["-M", repr(mr)]
                vis = data[: nvis * sw * ch]
                classes.add("opt_M")
        if opts.get("L") and kind not in ("stdin", "stdin_pipe"):
            argv.append("-L")
            classes.add("opt_L")
        printf = opts.get("printf")
        tfmt = opts.get("time_format")
        if printf is not None:
            argv += ["--printf", printf]
        if tfmt is not None:
            argv += ["--time-format", tfmt]
        if printf is not None and "{timestamp" in printf:
            argv += ["--timestamp-format", "TS"]
        o_tmpl = O_path = None
        if opts.get("o"):
            o_tmpl = os.path.join(d, opts["o"] + ".wav")
            argv += ["-o", o_tmpl]
            classes.add("opt_o")
        if opts.get("O"):
            # .raw: the stream is recorded to a temporary wav and exported headerless at the end
            O_path = os.path.join(d, "stream.raw" if opts.get("O_raw") and opts.get("j") is None else "stream.wav")
            if opts.get("O_unencodable") and opts.get("j") is None:
                # a format that needs an external encoder: without one the stream stays a wav next to the name
                # asked for and a warning says so - the detections and the exit status are what they always are
                import shutil

                if not any(shutil.which(x) for x in ("ffmpeg", "avconv", "sox")):
                    O_path = os.path.join(d, "stream.ogg")
                    classes.add("opt_O_format_without_encoder")
            argv += ["-O", O_path]
        jsil = None
        if opts.get("j") is not None:
            k, frac = opts["j"]
            jsil = (k + frac) / sr
            argv += ["-j", repr(jsil)]
        if opts.get("q"):
            argv.append("-q")
            classes.add("opt_q")

        if opts.get("slow_consumers"):
            classes.add("slow_consumers")
        status, out, err, exc, hung = run_cli(argv, stdin_data, pipe=(kind == "stdin_pipe"), slow=bool(opts.get("slow_consumers")))
        shown = " ".join(a if not a.startswith(d) else os.path.basename(a) for a in argv)
        if hung:
            raise Violation(f"command line did not finish: auditok {shown}", case)
        if jsil is not None and O_path is None:
            classes.add("opt_j_without_O")
            rec.note(case, True, classes, out={"status": status})
            if exc is not None or status != 1:
                raise Violation(f"-j without -O: status {status!r}, exception {exc!r} (expected status 1)", case)
            left = set(os.listdir(d)) - {"in.wav", "in.raw", "in"}
            if left or out:
                raise Violation(f"-j without -O wrote {sorted(left)} / printed {out!r}", case)
            return
        if tfmt is not None and has_unknown(tfmt) and not opts.get("q"):
            rec.note(case, True, classes | {"fmt_unknown"}, out=repr(exc))
            if not isinstance(exc, TimeFormatError):
                raise Violation(f"--time-format {tfmt!r}: expected TimeFormatError, got status {status!r} / {exc!r}", case)
            return
        if exc is not None:
            raise Violation(f"auditok {shown} raised {type(exc).__name__}: {exc}", case)
        if status != 0:
            raise Violation(f"auditok {shown} exited with status {status!r}; stderr: {err[-300:]!r}", case)
        # ---- oracle: split() with the mapped parameters (no threads)
        reader = auditok.AudioReader(vis, block_dur=aw_used, sampling_rate=sr, sample_width=sw, channels=ch)
        regions = list(auditok.split(reader, drop_trailing_silence=drop, strict_min_dur=strict,
                                     energy_threshold=eth, use_channel=uc, **split_kw))
        pf = (printf if printf is not None else "{id} {start} {end}")
        pf = pf.replace("\\n", "\n").replace("\\t", "\t").replace("\\r", "\r")
        tf = tfmt if tfmt is not None else "%S"
        lines_opts = [[]]
        for i, r in enumerate(regions, 1):
            alts = set()
            starts, ends, durs = fmt_oracle(tf, r.start), fmt_oracle(tf, r.end), fmt_oracle(tf, r.duration)
            for a in starts:
                for b in ends:
                    for c in durs:
                        alts.add(pf.format(id=i, start=a, end=b, duration=c, timestamp="TS") + "\n")
            lines_opts.append(sorted(alts))
        want_first = "".join(x[0] for x in lines_opts[1:])
        if opts.get("q"):
            if out:
                raise Violation(f"-q printed {out!r}", case)
        else:
            ok = _match(out, lines_opts[1:])
            if not ok:
                raise Violation(f"auditok {shown}\nprinted {out!r}\nexpected {want_first!r}", case)
        exp = [(i, bytes(r), r.start, r.end) for i, r in enumerate(regions, 1)]
        bps = sw * ch
        if O_path is not None and O_path.endswith(".ogg"):
            kept = O_path + ".wav"
            if os.path.exists(kept):
                params, frames = pipeline.read_wav(kept)
                if params != (sr, sw, ch) or frames != vis:
                    raise Violation("the wav kept in place of the unencodable -O file does not hold the input", case)
                os.remove(kept)
        elif O_path is not None and O_path.endswith(".raw"):
            classes.add("opt_O_raw")
            if not os.path.exists(O_path):
                raise Violation("-O stream.raw was not written", case)
            with open(O_path, "rb") as fp:
                frames = fp.read()
            if frames != vis:
                raise Violation(f"-O raw file holds {len(frames) // bps} samples, the input has {len(vis) // bps}", case)
            for extra in ("stream.raw.wav",):
                # the temporary wav may stay until the worker object is collected; not judged
                try:
                    os.remove(os.path.join(d, extra))
                except OSError:
                    pass
        elif O_path is not None:
            try:
                params, frames = pipeline.read_wav(O_path)
            except Exception as e:  # noqa: BLE001
                raise Violation(f"-O file unreadable: {e}", case)
            if params != (sr, sw, ch):
                raise Violation(f"-O header {params}", case)
            if jsil is None:
                classes.add("opt_O")
                if frames != vis:
                    raise Violation(f"-O file holds {len(frames) // bps} samples, the input has {len(vis) // bps}", case)
            else:
                classes.add("opt_j")
                nsil, razor = exact_round(jsil, sr)
                cands = [(b"\0" * (n * bps)).join(b for _i, b, _s, _e in exp) for n in ([nsil, nsil + 1, nsil - 1] if razor else [nsil])]
                if frames not in cands:
                    raise Violation(f"-j file holds {len(frames) // bps} samples, expected {len(cands[0]) // bps}", case)
        if o_tmpl is not None:
            want_files = {o_tmpl.format(id=i, start=s, end=e, duration=len(b) / bps / sr): b for i, b, s, e in exp}
            have = {os.path.join(d, f) for f in os.listdir(d)} - {O_path, os.path.join(d, "stream.raw.wav"), os.path.join(d, "in.wav"),
                                                                   os.path.join(d, "in.raw"), os.path.join(d, "in")}
            if have != set(want_files):
                raise Violation(f"-o wrote {sorted(map(os.path.basename, have))}, expected "
                                f"{sorted(map(os.path.basename, want_files))}", case)
            for name, b in want_files.items():
                params, frames = pipeline.read_wav(name)
                if params != (sr, sw, ch) or frames != b:
                    raise Violation(f"-o file {os.path.basename(name)} does not hold its detection", case)
        if stdin_data is not None and B * sw * ch > 65536:
            classes.add("stdin_window_above_64KiB")
        nondefault = sum(1 for a in argv if a.startswith("-") and len(a) > 1 and not a[1:2].isdigit())
        if tf == "%I":
            classes.add("fmt_I")
        elif tf != "%S":
            classes.add("fmt_hmsi")
        rec.note(case, bool(regions) and not opts.get("q") and nondefault >= 3, classes,
                 out={"argv": shown, "stdout": out[:200]})
    finally:
        for f in os.listdir(d):
            try:
                os.remove(os.path.join(d, f))
            except OSError:
                pass
        try:
            os.rmdir(d)
        except OSError:
            pass


def _match(out, lines_opts):
    """out must be the concatenation of one alternative per line."""
    pos = 0
    for alts in lines_opts:
        for a in alts:
            if out.startswith(a, pos):
                pos += len(a)
                break
        else:
            return False
    return pos == len(out)


def check_case(case, rec):
    if case["t"] == "fmt":
        return check_fmt(case, rec)
    if case["t"] == "sub":
        return check_sub(case, rec)
    return check_cli(case, rec)


def check_sub(case, rec):
    """thorough: the same option vector through a real subprocess must print
    what the in-process run printed (and exit 0)."""
    recd = case["audio"]
    data, thr = audio.synth(recd)
    sr, sw, ch, B = recd["sr"], recd["sw"], recd["ch"], recd["B"]
    w = B / sr
    kmin, kmax, ksil, drop, strict = case["win"]
    base = ["-r", str(sr), "-c", str(ch), "-w", str(sw), "-n", repr((kmin - .5) * w), "-m", repr((kmax + .5) * w),
            "-s", repr((ksil + .5) * w if ksil else 0.0), "-a", repr(w), "-e", repr(thr)]
    if drop:
        base.append("-d")
    if strict:
        base.append("-R")
    _ctr[0] += 1
    path = os.path.join(tmpdir(), f"sub_{_ctr[0]}.raw")
    with open(path, "wb") as fp:
        fp.write(data)
    try:
        st1, out1, _e, exc, hung = run_cli([path] + base)
        if exc or hung or st1 != 0:
            raise Violation(f"in-process run failed: {st1} {exc}", case)
        env = dict(os.environ, PYTHONPATH=REPO, MPLBACKEND="Agg")
        argv = [sys.executable, "-m", "auditok.cmdline"]
        if case.get("stdin"):
            p = subprocess.run(argv + ["-"] + base, input=data, capture_output=True, env=env, cwd=REPO, timeout=120)
        else:
            p = subprocess.run(argv + [path] + base, capture_output=True, env=env, cwd=REPO, timeout=120)
        rec.note(case, bool(out1), {"subprocess_stdin" if case.get("stdin") else "subprocess_file"}, out=out1[:120])
        if p.returncode != 0 or p.stdout.decode() != out1:
            raise Violation(f"subprocess printed {p.stdout.decode()!r} (status {p.returncode}), in-process {out1!r}; "
                            f"stderr {p.stderr.decode()[-300:]!r}", case)
    finally:
        os.remove(path)


# ------------------------------------------------------------- generation

def explicit_cases():
    a = {"sr": 100, "sw": 2, "ch": 2, "B": 2, "pat": "0111011100011110", "tail": [1, 0], "al": 500, "aq": 1, "salt": 9, "uc": None}
    # a recording at the documented defaults: 16 kHz mono 16-bit, window 0.01 s = 160 samples, amplitude above 50 dB
    dflt = {"sr": 16000, "sw": 2, "ch": 1, "B": 160, "pat": "0" * 10 + "1" * 40 + "0" * 45 + "1" * 25 + "0" * 40,
            "tail": [0, 0], "al": 6000, "aq": 1, "salt": 4, "uc": None}
    cli = lambda **k: dict({"t": "cli", "audio": a, "win": [2, 6, 1, False, False], "input": "wav", "opts": {}}, **k)  # noqa: E731
    out = [
        cli(),
        cli(input="raw", opts={"printf": "{id}: {start} -> {end} ({duration})\\n", "time_format": "%h:%m:%s.%i"}),
        cli(input="noext", opts={"time_format": "%I", "O": True, "o": "det_{id}_{start:.3f}-{end:.3f}"}),
        cli(input="stdin", opts={"O": True, "j": [3, 0.25], "M": [21, 0.25]}),
        cli(input="wav", opts={"j": [2, 0]}),
        cli(input="wav", opts={"q": True, "L": True, "o": "r{id}"}),
        cli(input="raw", opts={"O": True, "O_raw": True, "o": "r{id}"}),
        cli(input="raw", audio=dict(a, uc=1), opts={"L": True, "printf": "{timestamp} {id}", "explicit_fmt": True}),
        cli(input="stdin", audio=dict(a, uc="mix"), win=[1, 3, 0, True, True], opts={"time_format": "%i ms %s s %m m %h h"}),
        cli(input="wav", opts={"time_format": "%h:%M"}),
        cli(input="wav", audio=dflt, win=[20, 500, 30, False, False],
            opts={"dflt_n": True, "dflt_m": True, "dflt_s": True, "dflt_a": True, "dflt_e": True}),
        cli(input="stdin_pipe", opts={"time_format": "%I", "a_frac": True}),
        # forty one-window events on a 0.1 s grid, every field printed with the truncating formats: start, end and
        # duration are three different floats (0.7 + 0.1 is not 0.8), each must be rendered from its own value
        cli(input="raw", audio={"sr": 10, "sw": 2, "ch": 1, "B": 1, "pat": "10" * 40 + "0110111", "tail": [0, 0], "al": 500, "aq": 1, "salt": 6, "uc": None},
            win=[1, 3, 0, False, False], opts={"printf": "{id} {start} {end} {duration}", "time_format": "%I", "explicit_fmt": True}),
        cli(input="wav", audio={"sr": 10, "sw": 2, "ch": 1, "B": 1, "pat": "110" * 30, "tail": [0, 0], "al": 500, "aq": 1, "salt": 7, "uc": None},
            win=[1, 3, 0, True, False], opts={"printf": "{duration}|{end}|{start}", "time_format": "%h:%m:%s.%i"}),
        cli(input="stdin", audio={"sr": 100, "sw": 2, "ch": 1, "B": 3, "pat": "1101" * 25, "tail": [1, 1], "al": 500, "aq": 1, "salt": 8, "uc": None},
            win=[1, 2, 0, False, False], opts={"printf": "{id}:{duration}", "time_format": "%s.%i (%h h %m m)", "explicit_fmt": True, "a_frac": True}),
        cli(input="stdin", audio={"sr": 16000, "sw": 2, "ch": 2, "B": 20000, "pat": "0110", "tail": [7, 0], "al": 3000, "aq": 0, "salt": 2, "uc": None},
            win=[1, 3, 0, False, False], opts={"explicit_fmt": True}),
        cli(input="stdin_pipe", audio={"sr": 16000, "sw": 4, "ch": 1, "B": 17000, "pat": "0101", "tail": [0, 0], "al": 3000, "aq": 0, "salt": 3, "uc": None},
            win=[1, 3, 0, True, False], opts={}),
        cli(input="raw", audio=dflt, win=[20, 500, 30, False, False],
            opts={"dflt_n": True, "dflt_m": True, "dflt_s": True, "dflt_a": True, "dflt_e": True}),
        cli(input="raw", opts={"O": True, "o": "d{id}", "slow_consumers": True}),
        cli(input="raw", opts={"O": True, "O_unencodable": True}),
        cli(input="wav", opts={"wav_bogus_params": [50, 1, 1]}),
        cli(input="wav", audio=dict(a, sr=8000, B=2), opts={"wav_bogus_params": [10, 7, 4], "explicit_fmt": True}),
        cli(input="stdin", audio={"sr": 10, "sw": 2, "ch": 1, "B": 1, "pat": "10" * 30, "tail": [0, 0], "al": 500, "aq": 1, "salt": 6, "uc": None},
            win=[1, 1, 0, False, False], opts={"o": "e{id}", "slow_consumers": True, "explicit_fmt": True}),
        # format specifications and conversions on the placeholders (the time fields are strings once formatted)
        cli(input="raw", opts={"printf": "{id:03d}|{start:>10}|{end:<9}|{duration:^12}|", "time_format": "%h:%m:%s.%i"}),
        cli(input="wav", opts={"printf": "{id:>4} {start!r} {end!s:>8} {duration:.3} {timestamp:>6}", "explicit_fmt": True}),
        # more than ten thousand detections in one run (ids, order and count up to the last one)
        cli(input="raw", audio={"sr": 10, "sw": 1, "ch": 1, "B": 1, "pat": "10" * 10100, "tail": [0, 0], "al": 60, "aq": 1, "salt": 6, "uc": None},
            win=[1, 1, 0, False, False], opts={"printf": "{id} {start}", "time_format": "%S", "explicit_fmt": True}),
    ]
    for t in (0.0, 0.57, 1.001, 59.9996, 3599.9999, 3723.25, 0.0005, 0.0015, 123.589, 86399.9995, 999999.9999):
        for f in ("%S", "%I", "%h:%m:%s.%i", "%i|%s|%m|%h"):
            out.append({"t": "fmt", "dur": t, "fmt": f})
    for t in (59.999, 60.0, 125.25, 3599.9996, 3725.5, 86461.001):
        for f in ("%s.%i", "%h:%s.%i", "%i", "%m:%i", "%h h %s s", "%s", "%m.%m", "no directive"):
            out.append({"t": "fmt", "dur": t, "fmt": f})
    out.append({"t": "fmt", "dur": 1.5, "fmt": "%h:%m:%s.%x"})
    out.append({"t": "fmt", "dur": 1.5, "fmt": "%S s"})
    return out


@st.composite
def fmt_strategy(draw):
    k = draw(st.integers(0, 10**9 - 1))
    how = draw(st.integers(0, 5))
    t = k / 1000
    if how == 0:
        t = math.nextafter(t, math.inf)
    elif how == 1:
        t = math.nextafter(t, 0)
    elif how == 2:
        t = (k + 0.5) / 1000
    elif how == 3:
        t = draw(st.floats(0, 999999, allow_nan=False))
    elif how == 4:
        t = draw(st.sampled_from([59.9996, 3599.9999, 0.57, 1.001, 59.999, 60.0, 3600.0, 0.9995, 0.0005]))
    parts = draw(st.permutations(["%h", "%m", "%s", "%i"]))
    if draw(st.booleans()):
        # only some of the directives (seconds without minutes, milliseconds alone, a directive twice, ...)
        parts = draw(st.lists(st.sampled_from(["%h", "%m", "%s", "%i"]), min_size=0, max_size=5))
    seps = draw(st.lists(st.sampled_from([":", ".", " ", "h", " min ", "-", "", "ms"]), min_size=len(parts) + 1, max_size=len(parts) + 1))
    combo = seps[0] + "".join(p + s for p, s in zip(parts, seps[1:]))
    fmt = draw(st.sampled_from(["%S", "%I", combo, combo, combo]))
    if draw(st.integers(0, 19)) == 0:
        fmt = combo + draw(st.sampled_from(["%x", "%H", "%M", "%", "%S", "%I"]))
    return {"t": "fmt", "dur": t, "fmt": fmt}


SAFE_BSR = [(B, sr) for sr in (10, 100, 1000, 8000, 16000) for B in range(1, 9) if audio.window_arg(B, sr) == B / sr]


@st.composite
def cli_strategy(draw, maxwin=20):
    from ..gen import pattern as tokpat
    from ..oracles import window_count

    mode = draw(st.sampled_from(["plain", "plain", "dflt_dur", "dflt_window"]))
    dflt = {}
    if mode == "plain":
        B, sr = draw(st.sampled_from(SAFE_BSR))
        win = draw(audio.split_windows(6))
        maxlen = maxwin
    else:
        if mode == "dflt_dur":
            sr, B = 10, draw(st.sampled_from([b for b, r in SAFE_BSR if r == 10 and b <= 4]))
        else:
            sr, B = 100, 1
            dflt["dflt_a"] = True
        w = B / sr
        cn, cm, cs = (window_count(0.2, w, "min")[0], window_count(5, w, "max")[0], window_count(0.3, w, "sil")[0])
        dn, dm, ds = draw(st.booleans()), draw(st.booleans()), draw(st.booleans())
        lo = max(cn if dn else 1, (cs + 1) if ds else 1)
        kmax = cm if dm else draw(st.integers(lo, lo + 6))
        kmin = cn if dn else draw(st.integers(1, min(kmax, 6)))
        ksil = cs if ds else draw(st.integers(0, min(kmax - 1, 4)))
        win = [kmin, kmax, ksil, draw(st.booleans()), draw(st.booleans())]
        dflt.update(dflt_n=dn, dflt_m=dm, dflt_s=ds)
        maxlen = min(700, 2 * kmax + 30)
    pat = tokpat([win[0], win[1], win[2], 0, 0, 0], maxlen)
    rec = draw(audio.recording(maxB=4, pattern=pat))
    rec["B"], rec["sr"] = B, sr
    rec["tail"] = [min(rec["tail"][0], B - 1), rec["tail"][1]]
    if mode != "plain" and rec["sw"] >= 2 and draw(st.booleans()):
        dflt["dflt_e"] = True
        rec["al"] = min(max(rec["al"], 1000), audio.MAXV[rec["sw"]] // 2)
    c = {"audio": rec, "win": win}
    uc = c["audio"]["uc"]
    if uc not in (None,) and not isinstance(uc, int):
        c["audio"]["uc"] = "mix" if uc in ("mix", "avg", "average") else None
    c["t"] = "cli"
    c["input"] = draw(st.sampled_from(["wav", "raw", "noext", "stdin", "stdin_pipe"]))
    N = len(c["audio"]["pat"]) * B + c["audio"]["tail"][0]
    o = {}
    if draw(st.booleans()):
        o["printf"] = draw(st.sampled_from(["{id} {start} {end}", "{start}\\t{end}", "{id}:{duration}|{start}",
                                            "{timestamp} {id} {end}", "x{id}\\n{duration}", "{id:04d}|{start:>12}|{end:<10}|{duration:^9}|",
                                            "{id:>3} {start!r} {duration:.4} {timestamp:>5}", "d\u00e9tection {id} \u2192 {start}", "{id}\u00a0{end} \u20ac"]))
    if draw(st.booleans()):
        o["time_format"] = draw(st.sampled_from(["%S", "%I", "%h:%m:%s.%i", "%i/%s/%m/%h", "%s.%i (%h h %m m)", "%h:%m:%s.%q"]))
    if c["input"] == "wav" and draw(rarely(4)):
        o["wav_bogus_params"] = [draw(st.sampled_from([1, 10, 50, 100, 48000])), draw(st.sampled_from([1, 2, 7])), draw(st.sampled_from([1, 2, 4]))]
    if draw(rarely(8)):
        o["O"], o["O_unencodable"] = True, True
    if len(c["audio"]["pat"]) <= 60 and draw(rarely(3)):
        o["slow_consumers"] = True
    if draw(st.integers(0, 3)) == 0:
        o["M"] = [draw(st.integers(0, N + 3)), draw(st.sampled_from([0, 0.25, 0.5, 0.75]))]
    o["L"] = draw(st.booleans())
    o["f"] = draw(st.booleans())
    o["explicit_fmt"] = draw(st.booleans())
    o["q"] = draw(st.integers(0, 7)) == 0
    r = draw(st.integers(0, 5))
    if r in (1, 2, 3):
        o["O"] = True
        o["O_raw"] = draw(st.integers(0, 3)) == 0
    if r in (2, 4):
        o["j"] = [draw(st.integers(0, 5)), draw(st.sampled_from([0, 0.25, 0.75]))]
    if draw(st.booleans()):
        o["o"] = draw(st.sampled_from(["d{id}", "d{id}_{start:.3f}", "{id}-{end}-{duration:.2f}", "e{id}_{start}_{end}"]))
    o.update(dflt)
    if mode == "plain" and draw(st.booleans()):
        o["a_frac"] = True
    c["opts"] = o
    return c


def jobs(tier, seed):
    b = BOUNDS[tier]
    out = []
    for i in range(16):
        out.append({"name": f"cli-{i}", "kind": "cli", "seed": seed * 1000 + i, "n": b["cli"]})
    for i in range(4):
        out.append({"name": f"fmt-{i}", "kind": "fmt", "seed": seed * 1000 + 50 + i, "n": b["fmt"]})
    if b["sub"]:
        out.append({"name": "subprocess", "kind": "sub", "seed": seed * 1000 + 77, "n": b["sub"]})
    return out


def run_job(job, rec):
    mod = sys.modules[__name__]
    if job["kind"] == "cli":
        hyp_run(mod, cli_strategy(), rec, job["seed"], job["n"])
    elif job["kind"] == "fmt":
        hyp_run(mod, fmt_strategy(), rec, job["seed"], job["n"])
    else:
        strat = st.builds(lambda c, s: {"t": "sub", "audio": c["audio"], "win": c["win"], "stdin": s},
                          cli_strategy(), st.booleans())
        hyp_run(mod, strat, rec, job["seed"], job["n"], shrink=False)
