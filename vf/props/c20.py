"""C20 - results never depend on an object's earlier use."""

import sys

from hypothesis import strategies as st

from .. import audio, gen, tok
from ..common import HarnessError, Violation, hyp_run, import_auditok, run_cases
from ..oracles import ref_tokens, stretches
from .c10 import content

import_auditok()
import auditok  # noqa: E402
from auditok.io import BufferAudioSource  # noqa: E402
from auditok.util import AudioEnergyValidator  # noqa: E402

ID = "C20"
LEVEL = "exploration"
RULE = (
    "Cases: (tok) one tokenizer used on stream 1 - complete list run, callback run, generator consumed to a drawn "
    "depth k, generator created and never advanced, or generator advanced k items, abandoned and closed in the middle of "
    "the later run - then on stream 2, with stream 1 biased to end in each automaton "
    "state (open token, right after a cut, tolerated silence, initial phase); exhaustive over all pairs of patterns up "
    "to length L1/L2 for small parameter tuples, Hypothesis-generated beyond. (split) split() repeated 2-4 times on the "
    "same AudioRegion / bytes object / Recorder rewound between runs. (val) an AudioEnergyValidator judging a generated "
    "sequence of windows, then window X. (buf) a buffer source read partially, closed (optionally: its position set while closed, then closed again), reopened. Oracle: second-use "
    "output == output of a fresh object with the same parameters (same frame objects for tokens; bytes and start for "
    "regions; same verdict; read restarts at sample 0). Non-trivial = the first use leaves the object away from its "
    "initial state (open token / continuation flag set / initial phase / unfinished generator / a region was found / "
    "previous verdict differs / cursor moved)."
)
MUST_HIT = ["first_interrupted_by_exception", "abandoned_generator_closed_mid_run", "buffer_position_set_while_closed",
            "first_open_token", "first_after_cut", "first_init_phase", "first_gen_partial", "first_gen_unstarted",
            "split_region", "split_bytes", "split_recorder", "validator", "buffer_reopen", "recorder_pass_abandoned", "buffer_reopened_behind_a_reader",
            "abandoned_generator_finalised_after_next_split"]
ASSUMPTIONS = ["fresh-object output is the reference (judged by C01-C07)"]
BOUNDS = {"quick": dict(L1=6, L2=5, n=400), "thorough": dict(L1=8, L2=7, n=8000)}
EXH_PARAMS = ([1, 2, 1, 0, 0, 0], [2, 2, 1, 0, 0, 0], [2, 3, 1, 0, 0, 4], [1, 3, 2, 2, 1, 0], [2, 3, 0, 0, 0, 2],
              [3, 3, 2, 2, 2, 6])


def tok_state_classes(pat, p):
    mn, mx, sil, imin, _isil, mode = p
    valid = [c == "1" for c in pat]
    n = len(pat)
    out = set()
    st_ = stretches(valid, sil)
    if st_ and st_[-1][2] == n - 1:
        out.add("first_open_token")
    if imin <= 1:
        rt = ref_tokens(valid, mn, mx, sil, bool(mode & 2), bool(mode & 4))
        if rt and rt[-1][1] == n - 1 and rt[-1][1] - rt[-1][0] + 1 == mx:
            out.add("first_after_cut")
    else:
        tail = len(pat) - len(pat.rstrip("1"))
        if 0 < tail < imin:
            out.add("first_init_phase")
    return out


def check_tok(case, rec):
    p, kind = case["p"], case.get("kind", "obj")
    f1, validator, s1 = tok.make_stream(case["pat1"], kind)
    tk = tok.make_tokenizer(validator, p)
    first = case["first"]
    classes = tok_state_classes(case["pat1"], p)
    keep = None
    earlier = None
    if first == "list":
        earlier = tk.tokenize(s1)
        earlier_snapshot = [(list(fr), s, e) for fr, s, e in earlier]
    elif first == "cb":
        tk.tokenize(s1, callback=lambda *a: None)
    elif first == "gen_unstarted":
        keep = tk.tokenize(s1, generator=True)
        classes = {"first_gen_unstarted"}
    elif isinstance(first, list) and first[0] == "gen":
        keep = tk.tokenize(s1, generator=True)
        got_n = 0
        for _ in range(first[1]):
            try:
                next(keep)
                got_n += 1
            except StopIteration:
                break
        if got_n == first[1]:
            classes.add("first_gen_partial")
    elif isinstance(first, list) and first[0] == "raise":
        # the first use dies of an exception raised by its data source after k frames
        class _Boom(Exception):
            pass

        class _Failing(tok.DataSource):
            def __init__(self, inner, after):
                self.inner, self.left = inner, after

            def read(self):
                if self.left <= 0:
                    raise _Boom()
                self.left -= 1
                return self.inner.read()

        try:
            if first[2] == "list":
                tk.tokenize(_Failing(s1, first[1]))
            else:
                for _t in tk.tokenize(_Failing(s1, first[1]), generator=True):
                    pass
        except _Boom:
            classes = tok_state_classes(case["pat1"][: first[1]], p) | {"first_interrupted_by_exception"}
    elif isinstance(first, list) and first[0] == "gen_close_mid":
        # the abandoned generator is finalised (closed, as the garbage collector would do) in the
        # middle of the later run
        keep = tk.tokenize(s1, generator=True)
        for _ in range(first[1]):
            try:
                next(keep)
            except StopIteration:
                break
        classes.add("first_gen_partial")
        classes.add("abandoned_generator_closed_mid_run")
    else:
        raise HarnessError(first)
    f2, _v, s2 = tok.make_stream(case["pat2"], kind)
    deliv = case.get("deliv", "list")
    if isinstance(first, list) and first[0] == "gen_close_mid":
        deliv = "gen"
        g2 = tk.tokenize(s2, generator=True)
        second = []
        done = False
        for _ in range(first[2]):
            try:
                second.append(next(g2))
            except StopIteration:
                done = True
                break
        keep.close()
        keep = None
        if not done:
            second.extend(g2)
    else:
        second = tok.deliver(tk, s2, deliv)
    f3, v3, s3 = tok.make_stream(case["pat2"], kind)
    fresh = tok.deliver(tok.make_tokenizer(v3, p), s3, deliv)

    def norm(toks, frames):
        idx = {id(f): i for i, f in enumerate(frames)} if kind in ("obj", "np") else None
        return [((s, e), [idx.get(id(f), -1) for f in fr] if idx is not None else list(fr)) for fr, s, e in toks]

    a, b = norm(second, f2), norm(fresh, f3)
    nt = bool(classes & {"first_open_token", "first_after_cut", "first_init_phase", "first_gen_partial", "first_gen_unstarted",
                         "first_interrupted_by_exception"})
    rec.note(case, nt, classes, out=[x[0] for x in a])
    if a != b:
        raise Violation(
            f"reused tokenizer (first use: {first} on {case['pat1']!r}) gives {[x[0] for x in a]} on {case['pat2']!r}, "
            f"a fresh one {[x[0] for x in b]}", case)
    if earlier is not None:
        # and the other way round: what the first use returned does not depend on the later use
        if [(list(fr), s, e) for fr, s, e in earlier] != earlier_snapshot:
            raise Violation("the tokens returned by the first use changed when the tokenizer was used again", case)
        if earlier is second and (earlier or second):
            raise Violation("the second use returned the very list object the first use had returned", case)
    if first == "gen_unstarted":
        # the generator requested first is only consumed now, i.e. its run starts after a complete
        # run on another stream: it too must deliver what a fresh tokenizer delivers for stream 1
        late = list(keep)
        f4, v4, s4 = tok.make_stream(case["pat1"], kind)
        fresh1 = tok.deliver(tok.make_tokenizer(v4, p), s4, "list")
        if norm(late, f1) != norm(fresh1, f4):
            raise Violation(
                f"generator requested before, consumed after, a run on {case['pat2']!r}: gives "
                f"{tok.spans(late)} on {case['pat1']!r}, a fresh tokenizer {tok.spans(fresh1)}", case)
    del keep


def check_split(case, rec):
    r, win, how = case["audio"], case["win"], case["how"]
    data, thr = audio.synth(r)
    aw = audio.window_arg(r["B"], r["sr"])
    sr, sw, ch = r["sr"], r["sw"], r["ch"]
    w = (r["B"] / sr) if how == "recorder" else aw
    mind, maxd, sild = audio.split_durations(win, w)
    kw = dict(min_dur=mind, max_dur=maxd, max_silence=sild, drop_trailing_silence=win[3], strict_min_dur=win[4],
              energy_threshold=thr, use_channel=r.get("uc"))
    runs = []
    extra = set()
    if how == "region":
        obj = auditok.AudioRegion(data, sr, sw, ch)
        for i in range(case["times"]):
            runs.append(list(obj.split(analysis_window=aw, **kw) if i % 2 else auditok.split(obj, analysis_window=aw, **kw)))
        if bytes(obj) != data:
            raise Violation("splitting altered the region", case)
    elif how == "bytes":
        for _ in range(case["times"]):
            runs.append(list(auditok.split(data, analysis_window=aw, sampling_rate=sr, sample_width=sw, channels=ch, **kw)))
    elif how == "recorder":
        rkw = {}
        vis = data
        if case.get("mr") is not None:
            from .c10 import resolve_max_read

            mr, lim = resolve_max_read({"mr": case["mr"], "sr": sr})
            if mr is not None:
                rkw["max_read"] = mr
                vis = data[: lim * sw * ch]
        recd = auditok.Recorder(data, block_dur=aw, sampling_rate=sr, sample_width=sw, channels=ch, **rkw)
        # passes: None = a complete split; k = a split abandoned after k regions (the first pass is always complete:
        # what a recorder replays is what was read before the first rewind)
        passes = [None] + list(case.get("passes") or [None] * (case["times"] - 1))
        pending = None
        for k in passes:
            g = auditok.split(recd, **kw)
            if pending is not None:
                # the abandoned generator of the previous pass goes away only now, after the next split was asked for
                pending = None
                import gc

                gc.collect()
            if k is None:
                runs.append(list(g))
            else:
                for _ in range(k):
                    if next(g, None) is None:
                        break
                extra.add("recorder_pass_abandoned")
                if case.get("late_drop"):
                    pending = g
                    extra.add("abandoned_generator_finalised_after_next_split")
                del g
            recd.rewind()
        if recd.data != vis:
            raise Violation("recorder data differs from the audio read", case)
        data = vis
    else:
        raise HarnessError(how)
    sig = [[(round(x.start * sr), bytes(x)) for x in run] for run in runs]
    rec.note(case, bool(sig[0]), {"split_" + how} | extra, out=[[s, len(d)] for s, d in sig[0]])
    for i, s in enumerate(sig[1:], 1):
        if s != sig[0]:
            raise Violation(
                f"split #{i + 1} of the same {how} gives {[(a, len(b)) for a, b in s]}, the first gave "
                f"{[(a, len(b)) for a, b in sig[0]]}", case)
    # and equal to a run on fresh objects
    fresh = [(round(x.start * sr), bytes(x)) for x in auditok.split(
        bytes(data), analysis_window=w, sampling_rate=sr, sample_width=sw, channels=ch, **kw)]
    if fresh != sig[0]:
        raise Violation(f"{how}: regions differ from a fresh split of the same bytes", case)


def check_val(case, rec):
    sw, ch, uc, thr = case["sw"], case["ch"], case["uc"], case["thr"]
    wins = [content(n, sw * ch, s) if lvl else bytes(n * sw * ch) for n, s, lvl in case["history"]]
    n, s, lvl = case["x"]
    x = content(n, sw * ch, s) if lvl else bytes(n * sw * ch)
    v = AudioEnergyValidator(thr, sw, ch, use_channel=uc)
    if case.get("reuse_buffer"):
        # the caller keeps one bytearray and refills it for every window (same object, new content)
        prev = []
        buf = bytearray()
        for w in wins + [x]:
            if len(buf) != len(w):
                buf = bytearray(len(w))
            buf[:] = w
            prev.append(bool(v.is_valid(buf)))
        got = prev.pop()
    else:
        prev = [bool(v.is_valid(w)) for w in wins]
        got = bool(v.is_valid(x))
    fresh = bool(AudioEnergyValidator(thr, sw, ch, use_channel=uc).is_valid(x))
    again = bool(v.is_valid(x))
    rec.note(case, bool(prev) and prev[-1] != fresh, {"validator"}, out=[prev, got])
    if got != fresh or again != fresh:
        raise Violation(f"validator verdict {got}/{again} after history {prev}, fresh validator says {fresh}", case)


def check_buf(case, rec):
    sr, sw, ch, N = case["sr"], case["sw"], case["ch"], case["N"]
    bps = sw * ch
    data = content(N, bps, case["salt"])
    src = BufferAudioSource(data, sr, sw, ch)
    src.open()
    for n in case["reads"]:
        src.read(n)
    moved = src.position > 0
    src.close()
    classes = {"buffer_reopen"}
    if case.get("pos_closed") is not None and N:
        # the cursor is moved while the source is closed; closing (again) must still return to the start
        src.position = min(case["pos_closed"], N)
        src.close()
        classes.add("buffer_position_set_while_closed")
        moved = True
    src.open()
    k = case["then"]
    got = src.read(k)
    want = data[: min(k, N) * bps] or None
    rec.note(case, moved, classes, out=None if got is None else len(got))
    if got != want:
        raise Violation(f"after close()/open() read({k}) did not restart at sample 0", case)
    fresh = BufferAudioSource(data, sr, sw, ch)
    fresh.open()
    if fresh.read(k) != got:
        raise Violation("reopened source differs from a fresh one", case)
    if case.get("via_reader") and N:
        # the same through a reader that keeps reading from the source: the source is consumed (to the end, or
        # partly), closed and reopened by the program, and the reader's next block is the first block of the audio
        B = case["via_reader"]
        src2 = BufferAudioSource(data, sr, sw, ch)
        reader = auditok.AudioReader(src2, block_dur=B / sr)
        reader.open()
        nread = 0
        while nread < case.get("reader_reads", 10**9):
            if reader.read() is None:
                break
            nread += 1
        src2.close()
        src2.open()
        blk = reader.read()
        want_blk = data[: min(B, N) * bps]
        if blk != want_blk:
            raise Violation(
                f"a reader over a buffer source that was consumed ({nread} blocks), closed and reopened returned "
                f"{'None' if blk is None else str(len(blk) // bps) + ' samples'} instead of the first block of the audio", case)
        classes.add("buffer_reopened_behind_a_reader")
        rec.note(case, True, classes, out=nread)


def check_case(case, rec):
    return {"tok": check_tok, "split": check_split, "val": check_val, "buf": check_buf}[case["t"]](case, rec)


def explicit_cases():
    a = {"sr": 100, "sw": 2, "ch": 2, "B": 2, "pat": "0111011100011", "tail": [1, 1], "al": 500, "aq": 1, "salt": 3, "uc": None}
    return [
        {"t": "tok", "pat1": "11", "pat2": "1001", "p": [2, 2, 1, 0, 0, 0], "first": "list", "kind": "obj"},
        {"t": "tok", "pat1": "0111", "pat2": "011", "p": [3, 3, 1, 0, 0, 0], "first": ["gen", 1], "kind": "obj"},
        {"t": "tok", "pat1": "0111", "pat2": "011", "p": [3, 4, 1, 0, 0, 0], "first": "gen_unstarted", "kind": "char"},
        {"t": "tok", "pat1": "0101", "pat2": "1011", "p": [1, 4, 1, 2, 1, 0], "first": "cb", "kind": "bytes"},
        {"t": "tok", "pat1": "011", "pat2": "1", "p": [1, 3, 2, 0, 0, 4], "first": "list", "kind": "obj", "deliv": "gen"},
        {"t": "tok", "pat1": "0110110", "pat2": "0110110011", "p": [1, 2, 0, 0, 0, 0], "first": ["gen_close_mid", 1, 1], "kind": "obj"},
        {"t": "tok", "pat1": "0111101", "pat2": "10", "p": [2, 4, 1, 0, 0, 0], "first": ["raise", 5, "list"], "kind": "obj"},
        {"t": "tok", "pat1": "0111101", "pat2": "10", "p": [2, 4, 1, 0, 0, 0], "first": ["raise", 5, "gen"], "kind": "char"},
        {"t": "buf", "sr": 10, "sw": 2, "ch": 2, "N": 9, "salt": 1, "reads": [2], "then": 4, "pos_closed": 5},
        {"t": "buf", "sr": 10, "sw": 2, "ch": 2, "N": 9, "salt": 1, "reads": [2], "then": 4, "via_reader": 2},
        {"t": "buf", "sr": 10, "sw": 1, "ch": 1, "N": 12, "salt": 2, "reads": [], "then": 3, "via_reader": 4, "reader_reads": 2},
        {"t": "split", "audio": a, "win": [2, 4, 1, False, False], "how": "region", "times": 3},
        {"t": "split", "audio": a, "win": [2, 4, 1, True, False], "how": "bytes", "times": 2},
        {"t": "split", "audio": a, "win": [1, 3, 0, False, True], "how": "recorder", "times": 4},
        {"t": "split", "audio": a, "win": [1, 3, 0, False, False], "how": "recorder", "times": 4, "passes": [None, 1, None, None], "mr": [23, 0]},
        {"t": "split", "audio": a, "win": [1, 3, 0, False, False], "how": "recorder", "times": 4, "passes": [1, None, 0, None], "late_drop": True},
        {"t": "split", "audio": a, "win": [2, 4, 1, False, False], "how": "recorder", "times": 3, "passes": [2, None], "mr": [20, 0.5], "late_drop": True},
        {"t": "val", "sw": 2, "ch": 2, "uc": "mix", "thr": 40.0, "history": [[4, 1, 1], [4, 2, 0]], "x": [3, 5, 1]},
        {"t": "val", "sw": 2, "ch": 1, "uc": None, "thr": 40.0, "history": [[4, 1, 1], [4, 2, 0]], "x": [4, 5, 1], "reuse_buffer": True},
        {"t": "val", "sw": 1, "ch": 1, "uc": None, "thr": 20.0, "history": [[6, 1, 0]], "x": [6, 5, 1], "reuse_buffer": True},
        {"t": "buf", "sr": 10, "sw": 2, "ch": 1, "N": 9, "salt": 1, "reads": [2, 3], "then": 4},
    ]


@st.composite
def strategy(draw):
    t = draw(st.sampled_from(["tok", "tok", "tok", "split", "val", "buf"]))
    if t == "tok":
        p = draw(gen.tok_params(8))
        first = draw(st.one_of(st.sampled_from(["list", "cb", "gen_unstarted"]),
                               st.tuples(st.just("gen"), st.integers(0, 3)).map(list),
                               st.tuples(st.just("gen_close_mid"), st.integers(0, 2), st.integers(0, 2)).map(list),
                               st.tuples(st.just("raise"), st.integers(0, 30), st.sampled_from(["list", "gen"])).map(list)))
        return {"t": "tok", "pat1": draw(gen.pattern(p, 40)), "pat2": draw(gen.pattern(p, 40)), "p": p, "first": first,
                "kind": draw(st.sampled_from(tok.KINDS)), "deliv": draw(st.sampled_from(tok.DELIVS))}
    if t == "split":
        c = draw(audio.audio_case(maxwin=20, maxB=6))
        out = {"t": "split", "audio": c["audio"], "win": c["win"], "how": draw(st.sampled_from(["region", "bytes", "recorder", "recorder"])),
               "times": draw(st.integers(2, 4))}
        if out["how"] == "recorder" and draw(st.booleans()):
            out["passes"] = draw(st.lists(st.one_of(st.none(), st.integers(0, 3)), min_size=1, max_size=4))
            out["late_drop"] = draw(st.booleans())
            nsamp = len(c["audio"]["pat"]) * c["audio"]["B"] + c["audio"]["tail"][0]
            out["mr"] = draw(st.one_of(st.none(), st.tuples(st.integers(1, nsamp + 2), st.sampled_from([0, 0.5])).map(list)))
        return out
    if t == "val":
        sw = draw(st.sampled_from([1, 2, 4]))
        ch = draw(st.integers(1, 3))
        w = st.tuples(st.integers(1, 12), st.integers(0, 1000), st.integers(0, 1)).map(list)
        return {"t": "val", "sw": sw, "ch": ch, "uc": draw(st.sampled_from([None, "mix", 0, -1])) if ch > 1 else None,
                "thr": draw(st.floats(-10, 8 * 20 * sw / 4 + 30, allow_nan=False)), "history": draw(st.lists(w, max_size=5)),
                "x": draw(w), "reuse_buffer": draw(st.booleans())}
    N = draw(st.integers(0, 30))
    return {"t": "buf", "sr": draw(st.sampled_from([8, 16000])), "sw": draw(st.sampled_from([1, 2, 4])),
            "ch": draw(st.integers(1, 3)), "N": N, "salt": draw(st.integers(0, 1000)),
            "reads": draw(st.lists(st.integers(1, 10), max_size=4)), "then": draw(st.integers(1, 12)),
            "pos_closed": draw(st.one_of(st.none(), st.integers(1, 30))),
            "via_reader": draw(st.one_of(st.none(), st.integers(1, 6))),
            "reader_reads": draw(st.sampled_from([10**9, 10**9, 0, 1, 3]))}


def _exh(p, L1, L2, lo, hi):
    firsts = ["list", "cb", "gen_unstarted", ["gen", 0], ["gen", 1], ["gen", 2]]
    for n1 in range(0, L1 + 1):
        for v1 in range(1 << n1):
            if not (lo <= v1 % 16 < hi):
                continue
            pat1 = format(v1, f"0{n1}b") if n1 else ""
            for n2 in range(1, L2 + 1):
                for v2 in range(1 << n2):
                    yield {"t": "tok", "pat1": pat1, "pat2": format(v2, f"0{n2}b"), "p": p,
                           "first": firsts[(v1 + v2 + n1) % len(firsts)], "kind": "obj"}


def jobs(tier, seed):
    b = BOUNDS[tier]
    out = []
    for pi in range(len(EXH_PARAMS)):
        for lo in range(0, 16, 4):
            out.append({"name": f"exh-p{pi}-{lo}", "kind": "exh", "pi": pi, "lo": lo, "hi": lo + 4, "L1": b["L1"], "L2": b["L2"]})
    out += [{"name": f"hyp-{i}", "kind": "hyp", "seed": seed * 1000 + i, "n": b["n"]} for i in range(16)]
    return out


def run_job(job, rec):
    mod = sys.modules[__name__]
    if job["kind"] == "exh":
        run_cases(mod, _exh(EXH_PARAMS[job["pi"]], job["L1"], job["L2"], job["lo"], job["hi"]), rec)
    else:
        hyp_run(mod, strategy(), rec, job["seed"], job["n"])


def extra_coverage(tier):
    b = BOUNDS[tier]
    return {"exhaustive_part": f"all (stream 1 up to {b['L1']} frames, stream 2 of 1..{b['L2']} frames) pairs x {len(EXH_PARAMS)} parameter tuples {list(EXH_PARAMS)} x way of leaving the first use rotating over list/callback/unstarted generator/generator advanced 0,1,2"}
