#!/venv/bin/python
"""Regenerate /verif/MANIFEST.json from the table below (kept in one place so
the manifest is always valid and in step with the checks that exist)."""
import json
import os
import sys

HERE = os.path.dirname(os.path.dirname(os.path.abspath(__file__)))

TITLES = {}
with open(os.path.join(HERE, "properties.jsonl")) as fp:
    for line in fp:
        p = json.loads(line)
        TITLES[p["id"]] = p["title"]

# id -> (category, technique, level text, level note, design ref)
CHECKS = {
    "C04": (
        "exploration",
        "differential against a declarative reference segmentation: exhaustive enumeration of short streams + Hypothesis-generated long streams",
        "Every validity pattern up to 11 frames (thorough 15) x every accepted (min,max,sil) with max_length<=4 x 4 modes is enumerated, plus generated streams up to 64 (300) frames with max_length up to 8 (24); the token list must equal a reference segmentation written from the statement and satisfy the 'consequently' clauses directly. Exhaustive inside the bounds, sampled beyond them - the right level for a pure function of a finite validity sequence.",
        "trusts the reference model in vf/oracles.py (cross-checked by the direct clauses), CPython, Hypothesis",
        "DESIGN.md 4/C04",
    ),
}

CHECKS.update({
    "C01": ("exploration",
        "invariant check over exhaustive short streams + Hypothesis-generated streams; identity of unique frame objects",
        "All patterns up to 10 frames (thorough 14) x all accepted parameter tuples with max_length<=3 (4) incl. initial-phase settings, plus generated streams to 64 (300) frames / max_length 8 (24), three frame kinds, three delivery modes. Each token is compared frame-by-frame (object identity) with the stream positions it claims. Exhaustive inside bounds, sampled beyond.",
        "harness source hands out frames in order; CPython; Hypothesis", "DESIGN.md 4/C01"),
    "C02": ("exploration",
        "invariant check over exhaustive short streams + generated streams; complete enumeration of the constructor argument grid against a decision table",
        "Length/adjacency invariant on every token for the same stream population as C01; the constructor's accept/reject decision is enumerated completely on [-2,5]^4 x 3 x 10 (thorough [-3,8]^4) and compared with the predicate of the statement.",
        "a token has max_length frames iff it was cut", "DESIGN.md 4/C02"),
    "C03": ("exploration",
        "invariant check (validator re-applied to token frames, run counter carried across cuts) over exhaustive + generated streams",
        "Silence-run invariant, valid-frame presence, valid first frame, valid last frame under dropping, for the same population as C01 with silence-heavy initial-phase settings.",
        "a token has max_length frames iff it was cut", "DESIGN.md 4/C03"),
    "C05": ("exploration",
        "differential: split() vs reference pipeline (exact-rational energy oracle -> reference segmentation -> byte ranges) on synthesized PCM",
        "Synthesized recordings over all widths, 1-4 channels, 8 rates, windows of 1..12 samples with partial last window, all channel modes, three entry points; bytes, parameters and times of every region compared with the reference pipeline.",
        "energy oracle and reference segmentation (each judged on its own by C07 / C04); windows synthesized >= 3 dB from the threshold", "DESIGN.md 4/C05"),
    "C08": ("exploration",
        "invariant over read histories: read-counting sources, every prefix of every stream, three delivery modes; sample-counting AudioSource for split()",
        "For every stream (exhaustive to 9 frames, generated to 48/120) the tokenizer is run in all delivery modes and on every prefix; hand-over read counts, single end-of-stream read, mode equality and the prefix relation are checked; split() is driven over a counting source to check laziness.",
        "harness counting sources", "DESIGN.md 4/C08"),
})

NOT_YET = "check not built yet in this round (planned in DESIGN.md section 10)"


def main():
    checks = []
    for pid in sorted(CHECKS):
        cat, tech, text, note, ref = CHECKS[pid]
        if not os.path.exists(os.path.join(HERE, "vf", "props", pid.lower() + ".py")):
            continue
        checks.append(
            {
                "property_id": pid,
                "quick_cmd": f"./check {pid} --tier quick",
                "thorough_cmd": f"./check {pid} --tier thorough",
                "evidence_file": f"evidence/{pid}.json",
                "replay_cmd_template": f"./check {pid} --replay {{path}}",
                "engine": "vf",
                "level_claimed": {"category": cat, "text": text, "design_ref": ref},
                "level_note": note,
                "technique": tech,
            }
        )
    claimed = {c["property_id"] for c in checks}
    na = [
        {"property_id": pid, "reason": NOT_YET}
        for pid in sorted(TITLES)
        if pid not in claimed
    ]
    man = {
        "version": 1,
        "setup_cmd": "./setup.sh",
        "hooks": {
            "guard": "AUDITOK_VERIF",
            "enable": "no source hooks: observation points are reached from the harness process (harness sources/validators/observers, rebinding module-level names of loaded modules); checks import /repo's working tree directly",
            "baseline_off_cmd": "cd /repo && /venv/bin/python -m pytest -ra -q -p no:cacheprovider --timeout=900 --continue-on-collection-errors",
            "source_commits": [],
            "add_only": True,
        },
        "engines": [
            {
                "name": "vf",
                "path": "vf/",
                "serves_properties": sorted(claimed),
                "kind_free_text": "property-based testing: Hypothesis strategies / rule-based state machines, exhaustive enumeration of small finite domains, harness-owned thread scheduler, atheris fuzz target (thorough)",
            }
        ],
        "checks": checks,
        "not_applicable": na,
        "notes": "Run ./check <ID> [--tier quick|thorough] [--replay file]. Exit 0 held / 1 VIOLATION / 2 harness error. Genuine defects found and repaired are listed in known_findings.json (status fixed).",
    }
    with open(os.path.join(HERE, "MANIFEST.json"), "w") as fp:
        json.dump(man, fp, indent=1)
        fp.write("\n")
    import subprocess

    r = subprocess.run(
        ["python3-vt", "-c",
         "import json,jsonschema,sys;"
         "jsonschema.validate(json.load(open(sys.argv[1])), json.load(open('/root/.vp/MANIFEST.schema.json')))",
         os.path.join(HERE, "MANIFEST.json")], capture_output=True, text=True)
    print("MANIFEST.json", "valid" if r.returncode == 0 else "INVALID " + r.stderr[-500:],
          ";", len(checks), "checks,", len(na), "not claimed")


if __name__ == "__main__":
    main()
