#!/venv/bin/python
"""Regenerate /verif/MANIFEST.json from the table below (kept in one place so
the manifest is always valid and in step with the checks that exist)."""
import json
import os
import sys

HERE = os.path.dirname(os.path.dirname(os.path.abspath(__file__)))

TITLES = {}
with open(os.path.join(HERE, "properties.jsonl")) as fp:
    for line in fp:
        p = json.loads(line)
        TITLES[p["id"]] = p["title"]

# id -> (category, technique, level text, level note, design ref)
CHECKS = {
    "C04": (
        "exploration",
        "differential against a declarative reference segmentation: exhaustive enumeration of short streams + Hypothesis-generated long streams",
        "Every validity pattern up to 11 frames (thorough 15) x every accepted (min,max,sil) with max_length<=4 x 4 modes is enumerated, plus generated streams up to 64 (300) frames with max_length up to 8 (24); the token list must equal a reference segmentation written from the statement and satisfy the 'consequently' clauses directly. Exhaustive inside the bounds, sampled beyond them - the right level for a pure function of a finite validity sequence.",
        "trusts the reference model in vf/oracles.py (cross-checked by the direct clauses), CPython, Hypothesis",
        "DESIGN.md 4/C04",
    ),
}

CHECKS.update({
    "C01": ("exploration",
        "invariant check over exhaustive short streams + Hypothesis-generated streams; identity of unique frame objects",
        "All patterns up to 10 frames (thorough 14) x all accepted parameter tuples with max_length<=3 (4) incl. initial-phase settings, plus generated streams to 64 (300) frames / max_length 8 (24) and occasionally 250-300, five frame kinds (unique objects, characters, bytes, falsy/truthy ints, numpy-bool validator), three delivery modes, a quarter of the cases on a tokenizer used before (complete run, abandoned generator, two coexisting generators, generator closed mid-run). Each token is compared frame-by-frame (object identity) with the stream positions it claims. Exhaustive inside bounds, sampled beyond.",
        "harness source hands out frames in order; CPython; Hypothesis", "DESIGN.md 4/C01"),
    "C02": ("exploration",
        "invariant check over exhaustive short streams + generated streams; complete enumeration of the constructor argument grid against a decision table",
        "Length/adjacency invariant on every token for the same stream population as C01; the constructor's accept/reject decision is enumerated completely on [-2,5]^4 x 3 x 10 (thorough [-3,8]^4) and compared with the predicate of the statement.",
        "a token has max_length frames iff it was cut", "DESIGN.md 4/C02"),
    "C03": ("exploration",
        "invariant check (validator re-applied to token frames, run counter carried across cuts) over exhaustive + generated streams",
        "Silence-run invariant, valid-frame presence, valid first frame, valid last frame under dropping, for the same population as C01 with silence-heavy initial-phase settings.",
        "a token has max_length frames iff it was cut", "DESIGN.md 4/C03"),
    "C05": ("exploration",
        "differential: split() vs reference pipeline (exact-rational energy oracle -> reference segmentation -> byte ranges) on synthesized PCM",
        "Synthesized recordings over all widths, 1-4 channels, 8 rates, windows of 1..12 samples with partial last window, all channel modes, three entry points; bytes, parameters and times of every region compared with the reference pipeline.",
        "energy oracle and reference segmentation (each judged on its own by C07 / C04); windows synthesized >= 3 dB from the threshold", "DESIGN.md 4/C05"),
    "C08": ("exploration",
        "invariant over read histories: read-counting sources, every prefix of every stream, three delivery modes; sample-counting AudioSource for split()",
        "For every stream (exhaustive to 9 frames, generated to 48/120) the tokenizer is run in all delivery modes and on every prefix; hand-over read counts, single end-of-stream read, mode equality and the prefix relation are checked; split() is driven over a counting source to check laziness.",
        "harness counting sources", "DESIGN.md 4/C08"),
})

CHECKS.update({
    "C06": ("exploration",
        "differential: exact-rational window counts (1e-9 rule) -> reference segmentation vs split() on burst/gap recordings; complete enumeration of a reject grid against a decision table",
        "Durations are built as decimal multiples of the window (whose float quotient is often not an integer) or clear non-multiples; windows that are not a whole number of samples, reader inputs (plain, overlapping, with a conflicting analysis_window argument) included; recordings hold bursts of m-1, m, m+1 windows, gaps of s and s+1 windows and a burst of 2M+1 windows, so each of the three counts is observed directly. The accept/reject decision is enumerated on 9408 tuples.",
        "statement's 1e-9 rule vs implementation epsilon: quotients between 1e-11 and 1e-8 from an integer are not generated", "DESIGN.md 4/C06"),
    "C07": ("exploration",
        "differential against an exact-rational energy oracle (50-digit dB), exact-boundary constructions, metamorphic monotonicity in the threshold",
        "Windows with boundary-biased sample values x every selection mode x thresholds around the oracle energy; constant |10^k| windows put the energy exactly on the threshold.",
        "decisions closer than 1e-9 dB to the threshold are not compared; numpy exactness for 10^k constants", "DESIGN.md 4/C07"),
    "C09": ("exploration",
        "metamorphic/differential: 12 container kinds x alias spellings x max_read against split(bytes, long names) and the reference pipeline",
        "Same synthesized audio supplied through every container and spelling must give identical (start sample, bytes) regions; files written with stdlib wave/open; stdin through a rebound sys.stdin.",
        "baseline split(bytes) judged by C05", "DESIGN.md 4/C09"),
    "C10": ("exploration",
        "model-based: closed-form block sequence over generated source/format/block/hop/max_read/source-kind/over-read configurations",
        "Every read() of every generated configuration (incl. empty sources, max_read 0, lazy files, stdin behind a BytesIO or a real pipe, already-consumed buffer sources, hop==block, durations with fractional sample parts) compared with the closed form; rejected configurations must raise ValueError.",
        "razor of 1e-9 on floor/round of duration*rate", "DESIGN.md 4/C10"),
    "C11": ("exploration",
        "stateful model-based testing (Hypothesis rule-based state machine) over read/position/rewind/close/open histories, per source kind",
        "Cursor model over the byte string compared after every step for buffer, lazy raw, lazy wav and stdin sources (BytesIO and real OS pipe fed in odd-sized chunks); every integer millisecond position of 1.2 s buffers at six rates is set and read back.",
        "file/stdin sources are never reopened (not claimed)", "DESIGN.md 4/C11"),
    "C16": ("exploration",
        "model-based: Python list slicing of the sample list; exhaustive small slice grid + generated big ints/floats; exact-rational bounds for time views",
        "All sample slices with bounds in {None} U [-15,15] on all regions up to 12 samples x 9 formats are enumerated, as is every integer millisecond bound of a 1.5 s region at ten rates; seconds/millis views and invalid indices (incl. falsy ones) are generated.",
        "razor of 1e-9 on trunc/round of t*rate; |t| <= 1e15", "DESIGN.md 4/C16"),
    "C17": ("exploration",
        "stateful model-based testing (rule-based state machine) over a pool of regions with a bytes-level model; operands re-verified after every step",
        "Operation sequences of + sum * / join make_silence slice == mutation ragged-construction, with results fed back as operands.",
        "dividing an empty region not generated", "DESIGN.md 4/C17"),
    "C18": ("exploration",
        "round-trip + differential: writer judged with stdlib wave/open, reader against the written bytes and exact-rational slicing; struct-level decode for numpy()",
        "Generated audio (incl. > 2^16 samples) x formats (extension, explicit, mixed-case spellings) x writer (bytes-like inputs) x reader (eager/lazy) x name templates x exists_ok x skip/max_read incl. between samples and beyond the end.",
        "razor on round(s*rate)", "DESIGN.md 4/C18"),
    "C19": ("exploration",
        "stateful model-based testing (rule-based state machine) over read/rewind/data histories of recording and non-recording readers",
        "Consumed-prefix model and C10 block model compared at every step for every source kind, overlap and max_read combination.",
        "C10 block model", "DESIGN.md 4/C19"),
    "C20": ("exploration",
        "metamorphic: second use vs fresh object; exhaustive pairs of short streams + generated histories",
        "Tokenizer reuse after complete / partial / abandoned runs (exhaustive pairs for six parameter tuples), repeated split() on region/bytes/rewound recorder, validator history, buffer reopen.",
        "fresh-object output is the reference", "DESIGN.md 4/C20"),
})

CHECKS.update({
    "C12": ("exploration",
        "invariant over schedules: real worker threads serialised by a harness-owned scheduler whose choices (incl. when queue waits time out) are Hypothesis-generated; differential against split()",
        "Every generated (input, observer set, start order, schedule) runs the real TokenizerWorker/observer threads with exactly one thread running at a time (yield points: queue put/get incl. bounded queues and put timeouts, join incl. join timeouts, is_alive, start/exit, source reads, observer callbacks; starved consumers on long streams); observer logs, ids, printed lines and the worker's detections list must equal split(); deadlock and non-termination are detected in model steps. A few cases are repeated free-running on the real queue.Queue.",
        "interleavings at the granularity of queue operations / reads / callbacks / start / exit / join; fairness after the generated prefix; CPython threading and wave trusted", "DESIGN.md 3.4, 4/C12"),
    "C13": ("exploration",
        "differential over schedules: files written by the saver/joiner/region workers parsed with stdlib wave and compared with the blocks handed out / split() / split_and_join_with_silence()",
        "As C12 with cache sizes around the block size, silence durations incl. non-integral sample counts, generated filename templates; a transparent proxy logs the blocks the tokenizer received.",
        "as C12", "DESIGN.md 4/C13"),
    "C14": ("fault_enumeration",
        "fault injection over schedules: stop_all() injected at a generated scheduling step of a generated schedule (finite or endless source); oracle = split() of the blocks actually handed out",
        "Each schedule is measured, then replayed with stop_all() at step floor(f*T), f in [0,1.15]; logs, files and thread termination judged against the prefix actually read. Endless sources make the stop the only way to end the run.",
        "as C12; the stop arrives through stop_all() from the main thread", "DESIGN.md 4/C14"),
})

CHECKS.update({
    "C15": ("exploration",
        "differential: cmdline.main(argv) run in-process over generated option vectors and recordings vs split() rendered by an independent formatter; formatter checked against exact-rational millisecond arithmetic",
        "Generated option vectors (each option independently present or left to its documented default) x recordings as wav/raw/extension-less/stdin; stdout, exit status and the -o/-O/-j files compared with what split() yields; 6000+ formatter cases with boundary bias. Thorough adds real subprocess runs.",
        "no pyaudio/pydub/ffmpeg/sox in the sandbox: -E -C -p -I -F and other formats not covered; -a chosen so that a*rate is integral", "DESIGN.md 4/C15"),
})

NOT_YET = "check not built yet in this round (planned in DESIGN.md section 10)"


def main():
    checks = []
    for pid in sorted(CHECKS):
        cat, tech, text, note, ref = CHECKS[pid]
        if not os.path.exists(os.path.join(HERE, "vf", "props", pid.lower() + ".py")):
            continue
        checks.append(
            {
                "property_id": pid,
                "quick_cmd": f"./check {pid} --tier quick",
                "thorough_cmd": f"./check {pid} --tier thorough",
                "evidence_file": f"evidence/{pid}.json",
                "replay_cmd_template": f"./check {pid} --replay {{path}}",
                "engine": "vf",
                "level_claimed": {"category": cat, "text": text, "design_ref": ref},
                "level_note": note,
                "technique": tech,
            }
        )
    claimed = {c["property_id"] for c in checks}
    na = [
        {"property_id": pid, "reason": NOT_YET}
        for pid in sorted(TITLES)
        if pid not in claimed
    ]
    man = {
        "version": 1,
        "setup_cmd": "./setup.sh",
        "hooks": {
            "guard": "AUDITOK_VERIF",
            "enable": "no source hooks: observation points are reached from the harness process (harness sources/validators/observers, rebinding module-level names of loaded modules); checks import /repo's working tree directly",
            "baseline_off_cmd": "cd /repo && /venv/bin/python -m pytest -ra -q -p no:cacheprovider --timeout=900 --continue-on-collection-errors",
            "source_commits": [],
            "add_only": True,
        },
        "engines": [
            {
                "name": "vf",
                "path": "vf/",
                "serves_properties": sorted(claimed),
                "kind_free_text": "property-based testing: Hypothesis strategies / rule-based state machines, exhaustive enumeration of small finite domains, harness-owned thread scheduler, atheris fuzz target (thorough)",
            }
        ],
        "checks": checks,
        "not_applicable": na,
        "notes": "Run ./check <ID> [--tier quick|thorough] [--replay file]. Exit 0 held / 1 VIOLATION / 2 harness error. Genuine defects found and repaired are listed in known_findings.json (status fixed).",
    }
    with open(os.path.join(HERE, "MANIFEST.json"), "w") as fp:
        json.dump(man, fp, indent=1)
        fp.write("\n")
    import subprocess

    r = subprocess.run(
        ["python3-vt", "-c",
         "import json,jsonschema,sys;"
         "jsonschema.validate(json.load(open(sys.argv[1])), json.load(open('/root/.vp/MANIFEST.schema.json')))",
         os.path.join(HERE, "MANIFEST.json")], capture_output=True, text=True)
    print("MANIFEST.json", "valid" if r.returncode == 0 else "INVALID " + r.stderr[-500:],
          ";", len(checks), "checks,", len(na), "not claimed")


if __name__ == "__main__":
    main()
