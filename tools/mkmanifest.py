#!/venv/bin/python
"""Regenerate /verif/MANIFEST.json from the table below (kept in one place so
the manifest is always valid and in step with the checks that exist)."""
import json
import os
import sys

HERE = os.path.dirname(os.path.dirname(os.path.abspath(__file__)))

TITLES = {}
with open(os.path.join(HERE, "properties.jsonl")) as fp:
    for line in fp:
        p = json.loads(line)
        TITLES[p["id"]] = p["title"]

# id -> (category, technique, level text, level note, design ref)
CHECKS = {
    "C04": (
        "exploration",
        "differential against a declarative reference segmentation: exhaustive enumeration of short streams + Hypothesis-generated long streams",
        "Every validity pattern up to 11 frames (thorough 15) x every accepted (min,max,sil) with max_length<=4 x 4 modes is enumerated, plus generated streams up to 64 (300) frames with max_length up to 8 (24); the token list must equal a reference segmentation written from the statement and satisfy the 'consequently' clauses directly. Exhaustive inside the bounds, sampled beyond them - the right level for a pure function of a finite validity sequence.",
        "trusts the reference model in vf/oracles.py (cross-checked by the direct clauses), CPython, Hypothesis",
        "DESIGN.md 4/C04",
    ),
}

NOT_YET = "check not built yet in this round (planned in DESIGN.md section 10)"


def main():
    checks = []
    for pid in sorted(CHECKS):
        cat, tech, text, note, ref = CHECKS[pid]
        if not os.path.exists(os.path.join(HERE, "vf", "props", pid.lower() + ".py")):
            continue
        checks.append(
            {
                "property_id": pid,
                "quick_cmd": f"./check {pid} --tier quick",
                "thorough_cmd": f"./check {pid} --tier thorough",
                "evidence_file": f"evidence/{pid}.json",
                "replay_cmd_template": f"./check {pid} --replay {{path}}",
                "engine": "vf",
                "level_claimed": {"category": cat, "text": text, "design_ref": ref},
                "level_note": note,
                "technique": tech,
            }
        )
    claimed = {c["property_id"] for c in checks}
    na = [
        {"property_id": pid, "reason": NOT_YET}
        for pid in sorted(TITLES)
        if pid not in claimed
    ]
    man = {
        "version": 1,
        "setup_cmd": "./setup.sh",
        "hooks": {
            "guard": "AUDITOK_VERIF",
            "enable": "no source hooks: observation points are reached from the harness process (harness sources/validators/observers, rebinding module-level names of loaded modules); checks import /repo's working tree directly",
            "baseline_off_cmd": "cd /repo && /venv/bin/python -m pytest -ra -q -p no:cacheprovider --timeout=900 --continue-on-collection-errors",
            "source_commits": [],
            "add_only": True,
        },
        "engines": [
            {
                "name": "vf",
                "path": "vf/",
                "serves_properties": sorted(claimed),
                "kind_free_text": "property-based testing: Hypothesis strategies / rule-based state machines, exhaustive enumeration of small finite domains, harness-owned thread scheduler, atheris fuzz target (thorough)",
            }
        ],
        "checks": checks,
        "not_applicable": na,
        "notes": "Run ./check <ID> [--tier quick|thorough] [--replay file]. Exit 0 held / 1 VIOLATION / 2 harness error. Genuine defects found and repaired are listed in known_findings.json (status fixed).",
    }
    with open(os.path.join(HERE, "MANIFEST.json"), "w") as fp:
        json.dump(man, fp, indent=1)
        fp.write("\n")
    import subprocess

    r = subprocess.run(
        ["python3-vt", "-c",
         "import json,jsonschema,sys;"
         "jsonschema.validate(json.load(open(sys.argv[1])), json.load(open('/root/.vp/MANIFEST.schema.json')))",
         os.path.join(HERE, "MANIFEST.json")], capture_output=True, text=True)
    print("MANIFEST.json", "valid" if r.returncode == 0 else "INVALID " + r.stderr[-500:],
          ";", len(checks), "checks,", len(na), "not claimed")


if __name__ == "__main__":
    main()
