#!/venv/bin/python
"""Fill the @@MUTATION_TABLE@@ / @@SEEDED_TABLE@@ blocks of DESIGN.md from
results/mutants-quick.jsonl and results/seeded-quick.jsonl (outputs of
tools/mutate.py and tools/seeded.py run)."""
import json
import os
import re

HERE = os.path.dirname(os.path.dirname(os.path.abspath(__file__)))


def rows(path):
    out = []
    if os.path.exists(path):
        for line in open(path):
            line = line.strip()
            if line.startswith("{"):
                out.append(json.loads(line))
    return out


NOTES = {
    "tok-min-length-gt": "C02 is not violated by this mutant (tokens of exactly min_length are lost, none is too short or too long): C04 is the property it breaks",
    "split-silence-ge-to-gt": "equivalent at the API: the tokenizer constructor still raises ValueError for silence == max",
    "energy-negative-index-not-normalised": "equivalent: numpy's own negative indexing selects the same channel",
    "limiter-lt-zero": "equivalent with the existing sources: every source returns None for read(0)",
    "check-other-skips-sw": "equivalent: whenever width*channels agree but widths differ, the channel counts differ and the next test raises",
    "stop-joins-before-send": "repository tests hang with this mutant (caught by the suite's timeout), kept for sensitivity only",
}


def mutation_table():
    rs = rows(os.path.join(HERE, "results", "mutants-quick.jsonl"))
    lines = ["| mutant | repo tests still pass | check: verdict (s) |", "|---|---|---|"]
    caught = total = 0
    for r in rs:
        cells = []
        for pid, (v, t, _m) in r["checks"].items():
            cells.append(f"{pid}: {v} ({t})")
            total += 1
            caught += v == "caught"
        tp = {True: "yes", False: "NO (not a valid mutant for the brief, kept for sensitivity only)", None: "not run"}[r.get("tests_pass")]
        note = NOTES.get(r["name"])
        lines.append(f"| {r['name']} | {tp} | {'; '.join(cells)}{' - ' + note if note else ''} |")
    lines.append("")
    lines.append(f"{caught} of {total} (mutant, targeted check) pairs caught in the quick tier, {len(rs)} mutants.")
    return "\n".join(lines)


def seeded_table():
    rs = rows(os.path.join(HERE, "results", "seeded-quick.jsonl"))
    lines = ["| seeded change | what it needs to manifest | targeted check: verdict (s) |", "|---|---|---|"]
    for r in rs:
        meta = json.load(open(os.path.join(HERE, "seeded", r["name"], "meta.json")))
        needs = (meta.get("needs") or "").replace("\n", " ").replace("|", "/")
        if len(needs) > 230:
            needs = needs[:227] + "..."
        cells = "; ".join(f"{pid}: {v} ({t})" for pid, (v, t, _m) in r["checks"].items())
        if meta.get("note") and not any(v[0] == "caught" for v in r["checks"].values()):
            cells += " - " + meta["note"].replace("\n", " ").replace("|", "/")[:260]
        lines.append(f"| {r['name']} | {needs} | {cells} |")
    caught = sum(1 for r in rs if any(v[0] == "caught" for v in r["checks"].values()))
    target = sum(1 for r in rs if next(iter(r["checks"].values()))[0] == "caught")
    lines.append("")
    lines.append(f"{target} of {len(rs)} seeded changes are caught by the quick check of the property they were written against, "
                 f"{caught} by that check or the check of a neighbouring property the change breaks as well (listed after it); "
                 f"the {len(rs) - caught} others are annotated in their row.")
    return "\n".join(lines)


def main():
    p = os.path.join(HERE, "DESIGN.md")
    s = open(p).read()
    for tag, fn in (("MUTATION_TABLE", mutation_table), ("SEEDED_TABLE", seeded_table)):
        block = f"<!-- {tag} begin -->\n{fn()}\n<!-- {tag} end -->"
        if f"@@{tag}@@" in s:
            s = s.replace(f"@@{tag}@@", block)
        else:
            s = re.sub(rf"<!-- {tag} begin -->.*?<!-- {tag} end -->", lambda _m: block, s, flags=re.S)
    open(p, "w").write(s)
    print("DESIGN.md tables updated")


if __name__ == "__main__":
    main()
