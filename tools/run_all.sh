#!/bin/sh
# tools/run_all.sh [quick|thorough]  - run every registered check once, print one line each
tier=${1:-quick}
cd "$(dirname "$0")/.." || exit 2
rc=0
for c in C01 C02 C03 C04 C05 C06 C07 C08 C09 C10 C11 C12 C13 C14 C15 C16 C17 C18 C19 C20; do
  ./check $c --tier "$tier" > /tmp/run_all_$c.log 2>&1; s=$?
  tail -1 /tmp/run_all_$c.log
  [ $s -ne 0 ] && { rc=1; grep -E "VIOLATION|HARNESS-ERROR|KNOWN-FINDING" /tmp/run_all_$c.log | head -3; }
done
exit $rc
