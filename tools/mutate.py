#!/venv/bin/python
"""Dev-time sensitivity runs.  For each mutant in mutants/specs.py: copy /repo
to a scratch dir, apply the textual replacement, (optionally) run the repo's
pinned tests there, run the quick check of the targeted properties with
VERIF_REPO pointing at the copy, report caught / missed, delete the copy.

usage: tools/mutate.py [--tests] [--tier quick] [name-substring ...]
"""
import importlib.util
import json
import os
import shutil
import subprocess
import sys
import tempfile
import time

HERE = os.path.dirname(os.path.dirname(os.path.abspath(__file__)))


def load_specs():
    spec = importlib.util.spec_from_file_location("specs", os.path.join(HERE, "mutants", "specs.py"))
    m = importlib.util.module_from_spec(spec)
    spec.loader.exec_module(m)
    return m.MUTANTS


def main():
    args = sys.argv[1:]
    tests = "--tests" in args
    tier = "quick"
    if "--tier" in args:
        tier = args[args.index("--tier") + 1]
    names = [a for a in args if not a.startswith("--") and a != tier]
    results = []
    for mu in load_specs():
        if names and not any(n in mu["name"] for n in names):
            continue
        d = tempfile.mkdtemp(prefix="auditok-mut-")
        try:
            subprocess.run(["rsync", "-a", "--exclude", ".git", "--exclude", "build", "/repo/", d + "/"], check=True)
            for ed in mu["edits"]:
                p = os.path.join(d, ed["file"])
                s = open(p).read()
                if s.count(ed["old"]) != 1:
                    raise SystemExit(f"{mu['name']}: pattern occurs {s.count(ed['old'])} times in {ed['file']}")
                open(p, "w").write(s.replace(ed["old"], ed["new"]))
            tests_ok = None
            if tests:
                r = subprocess.run([os.path.join(HERE, "tools", "run_baseline.py"), d], capture_output=True, text=True,
                                   env=dict(os.environ, BASELINE_TIMEOUT="60"))
                tests_ok = r.returncode == 0
            row = {"name": mu["name"], "tests_pass": tests_ok, "checks": {}}
            for pid in mu["props"]:
                t0 = time.time()
                env = dict(os.environ, VERIF_REPO=d)
                r = subprocess.run([os.path.join(HERE, "check"), pid, "--tier", tier], capture_output=True, text=True, env=env)
                verdict = {0: "MISSED", 1: "caught", 2: "harness-error"}.get(r.returncode, str(r.returncode))
                msg = ""
                for line in r.stdout.splitlines():
                    if line.startswith("violation:"):
                        msg = line[:160]
                if verdict == "harness-error":
                    msg = (r.stdout + r.stderr)[-300:]
                row["checks"][pid] = [verdict, round(time.time() - t0, 1), msg]
            results.append(row)
            print(json.dumps(row))
            sys.stdout.flush()
        finally:
            shutil.rmtree(d, ignore_errors=True)
    # the replay files written against mutants are not findings on /repo
    caught = sum(1 for r in results for v in r["checks"].values() if v[0] == "caught")
    total = sum(len(r["checks"]) for r in results)
    print(f"SUMMARY caught {caught}/{total}")


if __name__ == "__main__":
    main()
