#!/venv/bin/python
"""Seeded changes (written by independent sub-agents) kept under /verif/seeded/.

  tools/seeded.py import /tmp/seed/C04/out     verify + copy each change of a sub-agent into seeded/<prop>-<k>/
  tools/seeded.py run [name-substr ...] [--all-checks] [--tier quick]
        for each seeded change: scratch copy of /repo + patch, run the check(s)
        of the property it targets (VERIF_REPO=<copy>), report caught/missed.

Scratch copies live under a temp dir and are removed afterwards; /repo itself
is never modified by this tool.
"""
import json
import os
import re
import shutil
import subprocess
import sys
import tempfile
import time

HERE = os.path.dirname(os.path.dirname(os.path.abspath(__file__)))
SEEDED = os.path.join(HERE, "seeded")
PY = "/venv/bin/python"


def scratch(patch=None):
    d = tempfile.mkdtemp(prefix="auditok-seed-")
    subprocess.run(["rsync", "-a", "--exclude", ".git", "--exclude", "build", "/repo/", d + "/"], check=True)
    if patch:
        r = subprocess.run(["patch", "-p1", "-s", "-i", patch], cwd=d, capture_output=True, text=True)
        if r.returncode != 0:
            shutil.rmtree(d, ignore_errors=True)
            raise RuntimeError(f"patch does not apply: {r.stdout}{r.stderr}")
    return d


def run_demo(demo, repo_dir):
    src = open(demo).read()
    src = re.sub(r"/tmp/seed\d*/C\d\d", repo_dir, src)
    with tempfile.NamedTemporaryFile("w", suffix=".py", delete=False) as fp:
        fp.write(src)
        tmp = fp.name
    try:
        env = dict(os.environ, MPLBACKEND="Agg", PYTHONDONTWRITEBYTECODE="1")
        r = subprocess.run([PY, tmp], cwd=repo_dir, env=env, capture_output=True, text=True, timeout=600)
        return r.returncode, (r.stdout + r.stderr)[-400:]
    except subprocess.TimeoutExpired:
        return 124, "timeout"
    finally:
        os.remove(tmp)


def baseline(repo_dir):
    r = subprocess.run([os.path.join(HERE, "tools", "run_baseline.py"), repo_dir], capture_output=True, text=True)
    return r.returncode == 0, r.stdout.strip().splitlines()[0] if r.stdout else ""


def cmd_import(outdir, tag=""):
    metas = json.load(open(os.path.join(outdir, "meta.json")))
    for k, meta in enumerate(metas, 1):
        patch = os.path.join(outdir, meta["patch"])
        demo = os.path.join(outdir, meta["demo"])
        prop = meta["property"]
        name = f"{prop}-{tag}{k}"
        clean = scratch()
        try:
            rc_clean, out_clean = run_demo(demo, clean)
        finally:
            shutil.rmtree(clean, ignore_errors=True)
        try:
            d = scratch(patch)
        except RuntimeError as e:
            print(f"{name}: REJECTED ({e})")
            continue
        try:
            ok_tests, line = baseline(d)
            rc_patched, out_patched = run_demo(demo, d)
        finally:
            shutil.rmtree(d, ignore_errors=True)
        verdict = ok_tests and rc_patched != 0 and rc_clean == 0
        print(f"{name}: tests_pass={ok_tests} demo_with_patch={rc_patched} demo_without={rc_clean} -> {'KEEP' if verdict else 'REJECT'}")
        if not verdict:
            print("   ", line, "|", out_patched[-200:].replace("\n", " "), "|", out_clean[-200:].replace("\n", " "))
            continue
        dst = os.path.join(SEEDED, name)
        os.makedirs(dst, exist_ok=True)
        shutil.copy(patch, os.path.join(dst, "patch.diff"))
        shutil.copy(demo, os.path.join(dst, "demo.py"))
        json.dump({
            "property": prop,
            "summary": meta.get("summary"),
            "needs": meta.get("needs"),
            "source": "independent sub-agent given only the property text and a scratch worktree",
            "confirmed": {
                "patch applies to /repo HEAD": True,
                "repository baseline tests (579) pass with the patch": ok_tests,
                "demo exit status with the patch": rc_patched,
                "demo exit status without the patch": rc_clean,
                "how": "tools/seeded.py import: scratch copy of /repo, patch -p1, tools/run_baseline.py, demo.py run against the copy",
            },
            "demo_output_with_patch": out_patched[-300:],
        }, open(os.path.join(dst, "meta.json"), "w"), indent=1)


def cmd_run(names, all_checks, tier):
    rows = []
    for name in sorted(os.listdir(SEEDED)):
        dst = os.path.join(SEEDED, name)
        if not os.path.isfile(os.path.join(dst, "patch.diff")):
            continue
        if names and not any(n in name for n in names):
            continue
        meta = json.load(open(os.path.join(dst, "meta.json")))
        props = [meta["property"]] + [p for p in meta.get("also_check", [])]
        if all_checks:
            props = [f"C{i:02d}" for i in range(1, 21)]
        d = scratch(os.path.join(dst, "patch.diff"))
        row = {"name": name, "checks": {}}
        try:
            for pid in props:
                t0 = time.time()
                env = dict(os.environ, VERIF_REPO=d)
                r = subprocess.run([os.path.join(HERE, "check"), pid, "--tier", tier], capture_output=True, text=True, env=env)
                verdict = {0: "MISSED", 1: "caught", 2: "harness-error"}.get(r.returncode, str(r.returncode))
                msg = next((ln[:200] for ln in r.stdout.splitlines() if ln.startswith("violation:")), "")
                if verdict == "harness-error":
                    msg = (r.stdout + r.stderr)[-300:]
                row["checks"][pid] = [verdict, round(time.time() - t0, 1), msg]
        finally:
            shutil.rmtree(d, ignore_errors=True)
        rows.append(row)
        print(json.dumps(row))
        sys.stdout.flush()
    caught = sum(1 for r in rows if any(v[0] == "caught" for v in r["checks"].values()))
    print(f"SUMMARY seeded changes caught by at least one targeted check: {caught}/{len(rows)}")


if __name__ == "__main__":
    a = sys.argv[1:]
    if a and a[0] == "import":
        cmd_import(a[1], a[a.index("--tag") + 1] if "--tag" in a else "")
    elif a and a[0] == "run":
        tier = a[a.index("--tier") + 1] if "--tier" in a else "quick"
        cmd_run([x for x in a[1:] if not x.startswith("--") and x != tier], "--all-checks" in a, tier)
    else:
        print(__doc__)
