#!/venv/bin/python
"""Run the repository's pinned test suite in <repo> (default /repo) and compare
the passing set with /root/.vp/BASELINE.json 'stable_pass'.
exit 0 iff every baseline test passes."""
import json, os, subprocess, sys, tempfile
import xml.etree.ElementTree as ET

repo = sys.argv[1] if len(sys.argv) > 1 else "/repo"
base = json.load(open("/root/.vp/BASELINE.json"))
want = set(base["stable_pass"])
with tempfile.TemporaryDirectory() as d:
    xml = os.path.join(d, "r.xml")
    env = dict(os.environ, MPLBACKEND="Agg", PYTHONDONTWRITEBYTECODE="1")
    for k in list(env):
        if k.startswith("AUDITOK_VERIF"):
            del env[k]
    subprocess.run(
        ["/venv/bin/python", "-m", "pytest", "-q", "-p", "no:cacheprovider", "-x" if False else "-q",
         "--timeout=" + os.environ.get("BASELINE_TIMEOUT", "900"), "--continue-on-collection-errors", f"--junitxml={xml}", "-n", "8"],
        cwd=repo, env=env, stdout=subprocess.DEVNULL, stderr=subprocess.DEVNULL)
    passed = set()
    for tc in ET.parse(xml).getroot().iter("testcase"):
        if not any(ch.tag in ("failure", "error", "skipped") for ch in tc):
            passed.add(f"{tc.get('classname')}::{tc.get('name')}")
missing = sorted(want - passed)
print(f"baseline tests: {len(want)}  passing now: {len(want & passed)}  missing: {len(missing)}")
for m in missing[:20]:
    print("  MISSING", m)
sys.exit(1 if missing else 0)
