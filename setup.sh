#!/bin/sh
# Offline setup: make sure hypothesis imports under /venv/bin/python; if not,
# install it (and its deps) from the wheelhouse into /verif/.deps.
here=$(cd "$(dirname "$0")" && pwd)
cd "$here" || exit 2
export PIP_NO_INDEX=1
if ! /venv/bin/python -c "import hypothesis" 2>/dev/null; then
  /venv/bin/pip install --no-index --find-links /opt/veriftools/wheels \
      --target "$here/.deps" hypothesis >/dev/null 2>&1 || {
      echo "setup: could not install hypothesis from the wheelhouse" >&2; exit 1; }
fi
# atheris is optional (thorough tier of C04 only)
if ! PYTHONPATH="$here/.deps" /venv/bin/python -c "import atheris" 2>/dev/null; then
  /venv/bin/pip install --no-index --find-links /opt/veriftools/wheels \
      --target "$here/.deps" atheris >/dev/null 2>&1 || \
      echo "setup: atheris not installable; thorough fuzz phase will be skipped" >&2
fi
PYTHONPATH="$here/.deps" /venv/bin/python -c "import hypothesis, numpy; print('setup ok: hypothesis', hypothesis.__version__)"
